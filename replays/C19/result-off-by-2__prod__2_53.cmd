# result-off-by-2+/prod>=2^53: steps line 9
srand 1
rand 9690506
rand 344
rand 29
rand 318
rand 40001
rand 6540066
rand 1
rand 12497613
