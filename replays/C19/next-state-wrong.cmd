# next-state-wrong: triples00 line 2
set 1407677000
rand 2
