# next-state-wrong: steps line 7
srand 1
rand 9690506
rand 344
rand 29
rand 318
rand 40001
rand 6540066
