# result-not-rfc-double/prod>=2^53: near00 line 2
srand 492809048
rand 12749994
