# result-not-rfc-double/prod>=2^53: near00 line 242
srand 328759957
rand 4208185
