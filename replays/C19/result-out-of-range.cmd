# result-out-of-range: triples03 line 6926
set 1510662174
rand 5759600
