# checkpoint-wrong: walk line 2
srand 1
walk 268435456 4096 1000
