# result-not-rfc-double/prod<2^53: triples00 line 2
set 1407677000
rand 2
