# result-not-rfc-double/prod<2^53: near02 line 1898
srand 769231636
rand 12506739
