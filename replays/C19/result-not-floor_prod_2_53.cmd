# result-not-floor/prod<2^53: steps line 2
srand 1
rand 9690506
