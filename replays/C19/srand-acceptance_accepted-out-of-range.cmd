# srand-acceptance/accepted-out-of-range: srand line 38
set 12345
srand 4294967297
