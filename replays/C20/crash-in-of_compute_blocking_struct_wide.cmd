# crash-in-of_compute_blocking_struct/wide: B=449974423 L=2831062907 E=2687052206 -> crash (signal) inside of_compute_blocking_struct
w 449974423 2831062907 2687052206
