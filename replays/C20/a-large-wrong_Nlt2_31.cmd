# a-large-wrong/N<2^31: B=2 L=4138514148 E=1 -> (N,I,A_large,A_small)=(2069257074, 0, 0, 2)
w 2 4138514148 1
