# a-large-wrong/N>=2^31: B=1 L=4030357263 E=1 -> (N,I,A_large,A_small)=(4030357263, 0, 0, 1)
w 1 4030357263 1
