# a-small-wrong/N>=2^31: B=2 L=4294967295 E=1 -> (N,I,A_large,A_small)=(2147483648, 0, 2, 2)
w 2 4294967295 1
