# memfault-copyrows_opt-after-clear (family tlc-simulation): asan
dalloc 0 4 7
dfree 0
dalloc 1 5 33
dflip 1 1 7
salloc 2 3 3
salloc 1 2 3
s2d 2 1
sfind 1 0 0
dalloc 0 1 1
dflip 1 1 24
dfree 0
dflip 1 3 9
sins 1 1 0
dalloc 0 3 3
dfree 0
sins 1 1 0
dalloc 0 5 33
dflip 0 2 25
dflip 1 1 18
sdel 1 1 1
s2d 1 1
dflip 1 1 2
dfree 0
sins 1 0 0
sins 1 1 2
scopyrows 2 1 2 1 1
sclear 2
dalloc 0 6 6
sins 2 1 1
scopyrows_opt 2 1 2 1 0
sq 2 2 2
dflip 0 4 3
sins 2 2 2
sdel 2 0 2
dflip 0 3 3
sq 2 2 1
salloc 0 1 1
dflip 0 4 0
sins 1 0 1
sfree 1
sfree 0
sfree 2
reset
