# memfault-copycols-after-clear (family exhaustive): asan
salloc 0 2 2
salloc 1 2 2
sins 0 1 1
scopy 0 1
scopycols 1 0 2 1 1
sfree 0
sfree 1
reset
