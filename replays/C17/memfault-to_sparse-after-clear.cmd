# memfault-to_sparse-after-clear (family random-unrestricted): asan
salloc 0 2 3
salloc 3 2 2
sdel 0 1 1
sfind 3 0 0
sdel 3 1 1
sdel 0 1 2
dalloc 2 2 3
s2d 0 2
dflip 2 1 2
dflip 2 0 0
d2s 2 0
sins 3 1 1
sins 0 1 0
sins 3 1 1
sq 3 1 1
sins 0 1 2
sins 3 0 0
sdel 3 0 1
sins 0 1 1
sfree 3
salloc 3 2 3
sfree 3
salloc 3 4 2
sins 0 1 2
dflip 2 0 2
dflip 2 1 1
d2s 2 0
sq 0 1 2
scopycols_opt 0 3 2 2 2
sfind 0 1 1
sfree 0
sfree 3
reset
