# insert-wrong-result (family exhaustive): matrix: find disagrees with membership in the set model
salloc 0 2 2
salloc 1 2 2
sins 0 1 1
sins 0 1 0
sfree 0
sfree 1
reset
