# memfault-copy_filled_matrix-after-clear (family tlc-simulation): asan
dalloc 0 6 6
salloc 0 1 1
salloc 1 4 7
dalloc 1 4 7
sins 0 0 0
dfree 0
sfind 0 0 0
dfree 1
dalloc 1 6 40
sins 0 0 0
salloc 2 5 33
scopy 0 2
sclear 0
sfilled 2 0 5 0 0 0 0 0 33 0 0 0 0 0 0 0 0 0 0 0 0 0 0 0 0 0 0 0 0 0 0 0 0 0 0 0 0 0 0 0 0 0
sfind 0 0 0
sq 1 1 5
sins 1 3 0
sfree 2
dflip 1 4 24
salloc 2 4 7
sclear 1
dflip 1 0 29
s2d 0 1
dflip 1 4 14
sins 2 2 4
dalloc 0 4 7
dflip 0 1 5
dfree 1
sins 2 0 2
sfind 1 3 6
dalloc 1 3 3
d2s 0 2
sins 1 0 4
dflip 0 2 1
d2s 1 1
sins 1 0 0
scopycols 1 2 7 2 6 0 4 4 4 3
sins 2 0 0
dflip 0 2 0
sfree 0
sfree 1
sfree 2
reset
