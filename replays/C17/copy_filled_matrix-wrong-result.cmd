# copy_filled_matrix-wrong-result (family random-unrestricted): destination: find disagrees with membership in the set model
salloc 0 4 2
sins 0 3 1
salloc 2 3 4
sins 2 2 1
sins 0 2 1
sdel 0 3 1
sins 0 3 1
salloc 1 2 2
sfilled 2 1 3 0 1 1 4 0 0 0 0
dalloc 2 3 2
s2d 1 2
dalloc 0 4 2
s2d 0 0
s2d 1 2
sins 2 2 2
s2d 0 0
sins 0 1 1
sdel 2 0 0
salloc 3 2 3
sfilled 2 3 3 0 1 0 4 2 2 0 2
sins 3 1 0
scopycols 2 0 2 1 1
sins 3 0 0
sclear 2
s2d 0 0
sfind 3 1 1
scopycols 1 2 4 0 0 1 0
sfind 2 2 2
sfree 3
sfree 2
reset
