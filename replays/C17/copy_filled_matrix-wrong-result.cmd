# copy_filled_matrix-wrong-result (family random-unrestricted): destination: forward column traversal is not the sorted column of the set model
salloc 1 2 33
sins 1 0 11
salloc 2 2 3
sins 2 0 2
sdel 2 0 0
sq 2 0 0
sdel 2 1 2
sins 1 1 12
sins 1 0 30
sq 2 1 0
sins 1 0 8
sins 1 1 8
sfind 2 0 2
scopycols 1 2 3 12 26 25
sins 1 0 3
sdel 1 1 12
sins 1 0 30
scopyrows 2 1 2 1 0
dalloc 2 3 5
s2d 2 2
scopyrows 2 1 2 1 1
sins 1 1 21
sfree 1
salloc 1 3 3
sq 1 2 2
sins 2 1 1
salloc 0 8 6
sq 2 1 1
salloc 3 5 5
scopyrows 1 2 2 2 0
scopycols 2 1 3 2 2 0
sfree 3
sins 1 0 1
sdel 0 4 0
sfree 1
sins 0 2 4
scopyrows 2 0 8 0 1 1 0 0 1 1 1
sins 2 1 0
scopyrows 2 0 8 0 1 1 0 0 1 0 1
sins 0 1 4
sdel 0 5 3
sins 2 0 1
scopycols 2 0 6 0 2 0 0 1 1
sins 2 1 2
sins 2 1 2
sins 0 4 4
sins 0 4 4
d2s 2 0
scopyrows 2 0 8 1 1 0 0 0 1 1 1
salloc 3 6 40
sfilled 0 3 8 1 2 1 2 4 5 5 0 6 3 3 31 5 15 5
sins 2 0 0
sins 3 4 14
scopyrows 0 3 6 3 2 6 6 4 5
sfree 3
sq 0 5 2
sclear 0
sins 0 4 0
sins 2 0 2
sfind 0 5 0
sfree 2
sfree 0
reset
