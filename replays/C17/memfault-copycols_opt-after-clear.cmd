# memfault-copycols_opt-after-clear (family tlc-simulation): asan
salloc 2 3 3
sins 2 1 1
sins 2 0 0
dalloc 1 3 3
dfree 1
dalloc 1 3 3
salloc 1 5 33
sfind 1 2 31
sins 1 1 31
sclear 1
salloc 0 4 7
sq 1 2 9
scopycols_opt 2 1 33 1 1 1 1 1 0 0 0 1 2 2 2 1 0 2 2 1 1 1 1 0 1 1 1 2 0 1 1 2 2 0 1 0
sdel 0 3 5
sins 1 4 5
sins 1 3 7
sfilled 1 0 5 3 3 3 2 1 33 3 4 4 4 5 4 2 6 6 0 2 3 2 1 5 0 4 2 1 6 1 3 2 5 4 4 3 1 6 5 3 4 2
sclear 1
sq 2 0 1
sdel 0 1 2
sins 1 3 14
sq 1 3 11
sfree 1
salloc 1 6 6
sdel 0 0 0
sfind 2 0 2
sdel 2 2 0
scopy 2 0
sfree 1
sdel 2 0 0
sins 2 0 2
sins 0 1 1
sins 2 1 0
sfind 0 3 6
dalloc 0 6 40
sq 0 0 6
dfree 0
sdel 0 3 6
salloc 1 3 3
sfree 2
sfree 0
sfree 1
reset
