# delete-wrong-result (family exhaustive): matrix: backward column traversal
salloc 0 2 2
salloc 1 2 2
sins 0 1 1
sdel 0 1 1
sfree 0
sfree 1
reset
