# to_sparse-wrong-result (family random-fresh-destination): destination: find disagrees with membership in the set model
salloc 3 1 3
sq 3 0 0
salloc 1 5 96
sfree 3
salloc 2 5 5
sdel 2 1 3
sfind 1 0 0
sins 1 2 48
sins 2 4 1
sins 2 0 1
sins 2 0 1
sdel 1 2 54
sins 1 1 48
sins 1 2 14
sdel 1 4 20
sins 1 4 24
sdel 1 4 56
dalloc 2 5 96
s2d 1 2
dflip 2 4 68
salloc 0 5 99
d2s 2 0
sins 0 3 90
salloc 3 5 1
scopycols 2 3 1 1
dalloc 0 6 99
s2d 0 0
sdel 3 1 0
sfree 2
salloc 2 6 2
scopycols 0 2 2 81 86
sdel 2 5 0
sfree 2
salloc 2 5 2
scopycols_opt 1 2 2 48 65
sq 3 2 0
sins 3 4 0
sfind 1 4 86
sins 1 0 46
sfree 3
sdel 0 3 91
salloc 3 2 96
scopyrows 1 3 2 3 3
sfree 1
salloc 1 1 96
scopyrows 3 1 1 0
sfree 1
salloc 1 3 2
scopycols 3 1 2 67 65
sfree 0
salloc 0 5 2
scopycols 2 0 2 1 1
sfind 0 3 1
sins 3 1 13
sins 0 0 0
sins 2 0 0
sins 2 2 0
sdel 2 3 0
sins 0 1 1
sins 3 1 73
sfree 2
sfree 3
sfree 1
reset
