# memfault-copyrows (family exhaustive): asan
dalloc 0 2 3
dalloc 1 3 2
dalloc 2 4 3
dcopyrows 1 0 2 2 0
dfree 0
dfree 1
dfree 2
reset
