# copyrows-wrong-result (family exhaustive): destination: bits read back with of_mod2dense_get differ from the bit-matrix model (4x3)
dalloc 0 2 3
dalloc 1 3 2
dalloc 2 4 3
dflip 0 1 2
dcopyrows 0 2 4 1 0 1 1
dfree 0
dfree 1
dfree 2
reset
