# solve-wrong-solution (family solver-numeric-rhs-null-constants): returned symbols differ from the unique solution (4x2 L=16)
solve 1 4 2 16 0 0 1 0 2 0 1 1 0 1 0 0 1 0 1 0
reset
