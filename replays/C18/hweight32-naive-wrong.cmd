# hweight32-naive-wrong (family popcounts): of_hweight32_naive returned 0 for a word with 1 bits set
hw32 1 17
hw32 1 18
hw32 1 19
hw32 1 20
hw32 1 21
hw32 1 22
hw32 1 23
hw32 1 24
hw32 1 25
hw32 1 26
hw32 1 27
hw32 1 28
hw32 1 29
hw32 1 30
hw32 1 31
hw32 2 0 1
hw32 2 0 2
hw32 2 0 3
hw32 2 0 4
hw32 2 0 5
hw32 2 0 6
hw32 2 0 7
hw32 2 0 8
hw32 2 0 9
hw32 2 0 10
reset
