# memfault-solve-null-constant-term (family solver-numeric-rhs-null-constants): segv
solve 1 3 3 8 2 1 2 1 2 1 0 1 0 0 1 0 1 0
reset
