# memfault-solve-null-constant-term (family solver-numeric-rhs-null-constants): segv
solve 1 2 2 17 1 1 2 0 1 0 2 1 2 1 0
reset
