# memfault-solve-null-constant-term (family solver-numeric-rhs-null-constants): segv
solve 1 3 1 9 0 1 0 1 0 0 0 1 0 0 0
reset
