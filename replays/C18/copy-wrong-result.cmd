# copy-wrong-result (family solver-numeric-rhs-null-constants): copy of the matrix the solver worked on differs from it (2x2 L=7)
solve 1 2 2 7 0 1 0 1 0 1 0
reset
