"""C16: 2D-parity codec: product-parity structure, sound and complete erasure recovery, leak-free release."""
import json
import os
import random
import time

import apicheck
import gen
import vlib

P = gen.P


def probe_accepted(bdir, drv):
    """which (k, n-k) with k <= 16, n <= 24 does the codec accept? (input selection only)"""
    lines = []
    pts = []
    for k in range(1, 17):
        for r in range(1, 24 - k + 1):
            pts.append((k, r))
            lines += ["create 0 5 enc", "rawparams 0 %d %d 4 0 0 0" % (k, r), "release 0", "reset"]
    beh = os.path.join(bdir, "probe.txt")
    open(beh, "w").write("\n".join(lines) + "\n")
    trc = vlib.run_driver(drv, beh, os.path.join(bdir, "probe.ndjson"))
    acc = []
    for ln in open(trc):
        d = json.loads(ln)
        if d["e"] == "SetParams" and d["st"] == 0:
            acc.append((d["k"], d["r"]))
    return pts, acc


def workload(tier, rng, acc):
    q = tier == "quick"
    execs = []
    for (k, r) in acc:
        n = k + r
        p = P(5, k, r, length=gen.need_len(5, k, 0))
        prnd = P(5, k, r, length=rng.choice([1, 3, 8, 17]), payload="rnd", align=gen.pick_align(rng))
        execs.append(gen.encode_exec(p, slots=["buf", "null"]))
        execs.append(gen.encode_exec(prnd))
        # the same repair symbols asked for again after a source symbol changed (same session, same buffers)
        execs.append(gen.encode_exec(p, slots="buf", rebuild=(rng.randrange(p.k), list(range(p.k, p.n)))))
        # every single loss, both APIs
        for lost in range(n):
            sub = [e for e in range(n) if e != lost]
            execs.append(gen.decode_exec(p, sub, api="recv", finish=True, probe="end"))
            if lost < k or not q:
                execs.append(gen.decode_exec(p, sub, api="setavail", finish=True, probe="end", cb=rng.choice([None, "buf"])))
        # all patterns for small n, bounded losses + samples otherwise
        if n <= (10 if q else 16):
            subs = list(gen.all_subsets(n))
        else:
            subs = []
            maxloss = 2 if q else 4
            import itertools
            for nl in range(2, maxloss + 1):
                combos = list(itertools.combinations(range(n), nl))
                if q and len(combos) > 150:
                    combos = rng.sample(combos, 150)
                for lost in combos:
                    subs.append([e for e in range(n) if e not in lost])
            for _ in range(100 if q else 1500):
                subs.append([e for e in range(n) if rng.random() < rng.uniform(0.5, 0.95)])
        for sub in subs:
            o = list(sub)
            if rng.random() < 0.5:
                rng.shuffle(o)
            api = rng.choice(["recv", "recv", "setavail"])
            execs.append(gen.decode_exec(p, sorted(o) if api == "setavail" else o, api=api, finish=True,
                                         cb=rng.choice([None, None, "buf", "mix"]), probe=rng.choice(["end", "each"])))
        # rectangles are the cycles of a product code: three corners lost with the fourth arriving last (its row and its
        # column check both reach one unknown and the chain from one comes back to the other), four corners lost for
        # good (not recoverable: of_finish_decoding goes through the elimination and fails), several disjoint ones
        for (dd, ll) in {(a, k // a) for a in range(2, k) if k % a == 0 and a + k // a == r and k // a >= 2}:
            for _ in range((40 if q else 400) if (dd >= 4 and ll >= 4) else (12 if q else 120)):
                nrect = 2 if (dd >= 4 and ll >= 4 and rng.random() < 0.7) else 1
                rows = rng.sample(range(dd), 2 * nrect)
                cols = rng.sample(range(ll), 2 * nrect)
                gone, late = set(), []
                for t in range(nrect):
                    corners = [ra * ll + ca for ra in rows[2 * t:2 * t + 2] for ca in cols[2 * t:2 * t + 2]]
                    rng.shuffle(corners)
                    mode = rng.choice(["3+last", "3+last", "4lost", "3lost"])
                    if mode == "4lost":
                        gone |= set(corners)
                    else:
                        gone |= set(corners[:3])
                        if mode == "3+last":
                            late.append(corners[3])
                            gone.add(corners[3])      # not among the early arrivals
                early = [e for e in range(n) if e not in gone and rng.random() < 0.97]
                rng.shuffle(early)
                execs.append(gen.decode_exec(p, early + late, api="recv", finish=True, cb=rng.choice([None, None, "buf", "null"]),
                                             probe=rng.choice(["end", "each"])))
        # release at every point of one history
        order = rng.sample(range(n), n - 1)
        for rel in range(0, n + 2):
            execs.append(gen.decode_exec(prnd, order, api="recv", finish=True, probe="end", release_at=rel))
    return execs


def run(pid, tier):
    t0 = time.time()
    rng = random.Random(vlib.seed() * 17 + 16)
    bdir = vlib.scratch(pid)
    verdict = vlib.Verdict(pid)
    try:
        mc = vlib.run_tlc(os.path.join(vlib.SPEC, "Ldpc2D_MC.tla"), os.path.join(vlib.SPEC, "Ldpc2D_%s.cfg" % tier),
                          os.path.join(bdir, "mc"), workers=8, xmx="6g", timeout=3000)
        if mc.violated or "Model checking completed. No error" not in mc.out:
            raise vlib.Infra("Ldpc2D_MC: the IT/ML models violate an invariant on a product parity code:\n" + mc.out[-3000:])
        drv = vlib.build_driver(bdir)
        pts, acc = probe_accepted(bdir, drv)
        if not acc:
            raise vlib.Infra("the 2D codec accepted no (k, n-k) at all")
        execs = workload(tier, rng, acc)
        lines = gen.join(execs).split("\n")
        api = apicheck.run_api(bdir, drv, lines)
        for mm in api["msgs"]:
            if "INFRA" not in mm["tags"] and pid not in mm["tags"]:
                mm["tags"].append(pid)
        apicheck.judge(pid, api, verdict)
        rc = verdict.finish()
        st = apicheck.stats_summary(api)
        cov = {
            "states": mc.distinct + api["distinct"], "transitions": mc.states + api["states"],
            "model_runs": [{"spec": "Ldpc2D_MC", "cfg": "Ldpc2D_" + tier, "distinct": mc.distinct, "generated": mc.states}],
            "traces_validated_against_impl": api["execs"],
            "samples": apicheck.sample_execs(lines, 3),
            "evaluations": len(execs),
            "distinct_nontrivial": apicheck.nontrivial_distinct(api, lambda x: x[2] > 0 or x[8] > 0 or x[4] > 0),
            "rule": "executions distinct as behaviour texts over every accepted (k, n-k) with k<=16, n<=24; non-trivial = a symbol was "
                    "decoded, a repair symbol built, or of_finish_decoding reported failure",
            "points_probed": len(pts), "points_accepted": acc,
            "spec_counters": st, "trace_lines": api["lines"],
            "exhaustive": False,
        }
        vlib.write_evidence(pid, tier, "model_checking", cov, time.time() - t0, len(verdict.violations),
                            ["equations of the session read from its control block right after of_set_fec_parameters"])
        return rc
    finally:
        vlib.cleanup(bdir)


def replay(pid, path):
    bdir = vlib.scratch(pid + "_replay")
    try:
        drv = vlib.build_driver(bdir)
        lines = [l for l in open(path).read().split("\n") if not l.startswith("#")]
        api = apicheck.run_api(bdir, drv, lines, nproc=1)
        for mm in api["msgs"]:
            if "INFRA" not in mm["tags"] and pid not in mm["tags"]:
                mm["tags"].append(pid)
        verdict = vlib.Verdict(pid)
        apicheck.judge(pid, api, verdict)
        return verdict.finish()
    finally:
        vlib.cleanup(bdir)
