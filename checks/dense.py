"""C18: the dense GF(2) matrix module (of_matrix_dense.c), the popcount helpers (of_hamming_weight.c) and the
symbol-level solver of ML decoding (of_linear_binary_code_solve_dense_system, of_ml_tool.c) agree with exact
bit-matrix algebra.

Oracle: spec/DenseMatrix.tla evaluated by TLC.
 (a) exhaustive model checking of the design-level models: the word-packed matrix (WordSize = 2, all
     reachable states of two small matrices under every operation; invariants: words represent the bit set,
     padding stays zero, every word-level query equals the bit-matrix answer) and the solver lemmas (the
     algorithm of of_ml_tool.c succeeds iff full column rank and then yields a left inverse) on ALL p x q
     systems up to MaxP;
 (b) trace validation (spec/DenseTrace.tla) of the REAL code driven by harness/matrix_driver.c under ASan:
     every recorded matrix operation is replayed with Apply and compared (returned value, all bits), every
     popcount is compared with the cardinality of the bit set, every solver call is compared with TLC's rank
     decision and the unique solution derived by the specification.
Python only generates inputs and orchestrates."""
import itertools
import os
import random
import time

import mxcommon
import vlib

ND = 4
EDGE_COLS = [1, 31, 32, 33, 63, 64, 65]


# ----------------------------------------------------------------------------------------- matrix operations

def edge_columns(C, rng):
    s = {c for c in (0, 1, 30, 31, 32, 33, 62, 63, 64, C - 1) if 0 <= c < C}
    s.add(rng.randrange(C))
    return sorted(s)


def gen_boundary(rng, R, C):
    """one matrix with a column count around the word boundaries: every element operation on every boundary column"""
    ln = ["dalloc 0 %d %d" % (R, C)]
    cols = edge_columns(C, rng)
    for r in range(R):
        for c in cols:
            if rng.random() < 0.7:
                ln.append("dset 0 %d %d 1" % (r, c))
            ln.append("dget 0 %d %d" % (r, c))
    for _ in range(C // 2):
        ln.append("dset 0 %d %d %d" % (rng.randrange(R), rng.randrange(C), rng.choice([1, 1, 0])))
    for r in range(R):
        ln.append("drw 0 %d" % r)
        ln.append("dempty 0 %d" % r)
        for nb in range(0, C + 1, 32):
            ln.append("drwi 0 %d %d" % (r, nb))
    for c in cols:
        ln.append("dcw 0 %d" % c)
        ln.append("dflip 0 %d %d" % (rng.randrange(R), c))
        ln.append("dset 0 %d %d 0" % (rng.randrange(R), c))
    for f in range(R):
        for t in range(R):
            ln.append("dxor 0 %d %d" % (f, t))
            ln.append("drw 0 %d" % t)
            ln.append("dempty 0 %d" % t)
    ln += ["dclear 0", "dempty 0 0", "dfree 0"]
    return ("word-boundary-elements", ln)


def gen_boundary_copies(rng, Ra, Ca, Rb, Cb, kind):
    ln = ["dalloc 0 %d %d" % (Ra, Ca), "dalloc 1 %d %d" % (Rb, Cb)]
    for _ in range(max(3, Ra * Ca // 3)):
        ln.append("dset 0 %d %d 1" % (rng.randrange(Ra), rng.choice(edge_columns(Ca, rng))))
    for _ in range(max(2, Rb * Cb // 4)):
        ln.append("dset 1 %d %d 1" % (rng.randrange(Rb), rng.choice(edge_columns(Cb, rng))))
    if kind == "copy":
        ln.append("dcopy 0 1")
    elif kind == "copyrows":
        ln.append("dcopyrows 0 1 %d %s" % (Rb, " ".join(str(rng.randrange(Ra)) for _ in range(Rb))))
    else:
        if Rb > Ra:
            ln.append("dclear 1")
        ln.append("dcopycols 0 1 %d %s" % (Cb, " ".join(str(rng.choice(edge_columns(Ca, rng))) for _ in range(Cb))))
    for r in range(Rb):
        ln.append("drw 1 %d" % r)
        ln.append("dempty 1 %d" % r)
    ln += ["dfree 0", "dfree 1"]
    return ("word-boundary-" + kind, ln)


def gen_exhaustive(length):
    """every sequence of 1..length operations over a fixed alphabet on a 2x3, a 3x2 and a 4x3 matrix"""
    alpha = ["dflip 0 0 0", "dflip 0 1 2", "dflip 0 0 2", "dset 0 1 0 1", "dset 0 0 0 0", "dxor 0 0 1", "dxor 0 1 1", "dclear 0",
             "dcopyrows 0 2 4 1 0 1 1", "dcopyrows 1 0 2 2 0", "dcopycols 0 1 2 2 0", "dflip 1 0 1", "dcopy 0 2"]
    out = []
    for n in range(1, length + 1):
        for seq in itertools.product(alpha, repeat=n):
            out.append(("exhaustive", ["dalloc 0 2 3", "dalloc 1 3 2", "dalloc 2 4 3"] + list(seq) + ["dfree 0", "dfree 1", "dfree 2"]))
    return out, len(alpha)


def gen_random(rng, count, nops, dims, copies, family):
    out = []
    for _ in range(count):
        dn = {}
        ln = []
        while len(ln) < nops:
            if not dn or (len(dn) < 2 and rng.random() < 0.5) or (len(dn) < ND and rng.random() < 0.05):
                s = rng.choice([x for x in range(ND) if x not in dn])
                dn[s] = rng.choice(dims)
                ln.append("dalloc %d %d %d" % (s, dn[s][0], dn[s][1]))
                continue
            a = rng.choice(list(dn))
            R, C = dn[a]
            col = lambda: rng.choice(edge_columns(C, rng)) if rng.random() < 0.5 else rng.randrange(C)
            k = rng.random()
            if k < 0.25:
                ln.append("dset %d %d %d %d" % (a, rng.randrange(R), col(), rng.choice([1, 1, 1, 0])))
            elif k < 0.40:
                ln.append("dflip %d %d %d" % (a, rng.randrange(R), col()))
            elif k < 0.48:
                ln.append("dget %d %d %d" % (a, rng.randrange(R), col()))
            elif k < 0.56:
                ln.append("dxor %d %d %d" % (a, rng.randrange(R), rng.randrange(R)))
            elif k < 0.62:
                ln.append("drw %d %d" % (a, rng.randrange(R)))
            elif k < 0.68:
                ln.append("drwi %d %d %d" % (a, rng.randrange(R), 32 * rng.randrange(C // 32 + 1)))
            elif k < 0.73:
                ln.append("dcw %d %d" % (a, col()))
            elif k < 0.78:
                ln.append("dempty %d %d" % (a, rng.randrange(R)))
            elif k < 0.80:
                ln.append("dclear %d" % a)
            elif k < 0.82:
                if len(dn) > 1:
                    ln.append("dfree %d" % a)
                    del dn[a]
            elif copies:
                kind = rng.choice(["copy", "copyrows", "copycols"])
                if kind == "copy":
                    cand = [b for b in dn if b != a and dn[b][0] >= R and dn[b][1] >= C]
                elif kind == "copyrows":
                    cand = [b for b in dn if b != a and dn[b][1] >= C]
                else:
                    cand = [b for b in dn if b != a and dn[b][0] >= R]
                if not cand:
                    continue
                b = rng.choice(cand)
                Rb, Cb = dn[b]
                if kind == "copy":
                    ln.append("dcopy %d %d" % (a, b))
                elif kind == "copyrows":
                    ln.append("dcopyrows %d %d %d %s" % (a, b, Rb, " ".join(str(rng.randrange(R)) for _ in range(Rb))))
                else:
                    if Rb > R:
                        ln.append("dclear %d" % b)
                    ln.append("dcopycols %d %d %d %s" % (a, b, Cb, " ".join(str(col()) for _ in range(Cb))))
        ln += ["dfree %d" % s for s in sorted(dn)]
        out.append((family, ln))
    return out


def from_simulation(bdir, num, depth, limit):
    behs, nstates = mxcommon.simulate_behaviours(bdir, "DenseSim", "DenseSim.cfg", num, depth, vlib.seed(), limit)
    out = []
    for b in behs:
        live = set()
        for o in b:
            if o["op"] == "dalloc":
                live.add(o["a"])
            elif o["op"] == "dfree":
                live.discard(o["a"])
        out.append(("tlc-simulation", [mxcommon.op_line(o) for o in b] + ["dfree %d" % s for s in sorted(live)]))
    return out, nstates


# ------------------------------------------------------------------------------------------------ popcounts

def gen_popcounts(rng, tier):
    q = tier == "quick"
    ln = []
    for x in range(256):
        bits = [i for i in range(8) if x >> i & 1]
        ln.append("hw8 %d %s" % (len(bits), " ".join(map(str, bits))))
    words = [[], list(range(32))] + [[i] for i in range(32)] + [[i, j] for i in range(32) for j in range(i + 1, 32)]
    words += [[i for i in range(32) if i != j] for j in range(32)]
    for _ in range(500 if q else 20000):
        words.append(sorted(rng.sample(range(32), rng.randrange(0, 33))))
    for w in words:
        ln.append(("hw32 %d %s" % (len(w), " ".join(map(str, w)))).rstrip())
    w64 = [[], list(range(64))] + [[i] for i in range(64)] + [sorted(rng.sample(range(64), rng.randrange(0, 65))) for _ in range(300 if q else 10000)]
    for w in w64:
        ln.append(("hw64 %d %s" % (len(w), " ".join(map(str, w)))).rstrip())
    sizes = list(range(1, 131)) + [160, 192, 224, 256, 257, 1023, 1024, 1025]
    for size in sizes:
        for dens in ([0.5, 1.0] if q else [0.1, 0.5, 0.9, 1.0]):
            bits = [i for i in range(size) if rng.random() < dens]
            ln.append(("hwarr %d %d %s" % (size, len(bits), " ".join(map(str, bits)))).rstrip())
    # long arrays (thousands of bits): random, all ones, and one byte lane of every 64-bit word full (what a
    # lane-wise accumulation overflows on), at lengths around the powers of two
    for size in ([2047, 2048, 2049, 4100, 8192] if q else [2016, 2047, 2048, 2049, 2080, 4095, 4096, 4100, 8191, 8192, 8200, 16384]):
        pats = [[i for i in range(size) if rng.random() < 0.5], list(range(size))]
        for lane in ([rng.randrange(8)] if q else range(8)):
            pats.append([i for i in range(size) if (i % 64) // 8 == lane or rng.random() < 0.05])
        for bits in pats:
            ln.append(("hwarr %d %d %s" % (size, len(bits), " ".join(map(str, bits)))).rstrip())
    # 25 calls per execution (short replay files)
    return [("popcounts", ln[i:i + 25]) for i in range(0, len(ln), 25)], len(ln)


# --------------------------------------------------------------------------------------------------- solver

def solve_line(mode, p, q, L, rows, rhs, null):
    parts = ["solve %d %d %d %d" % (mode, p, q, L)]
    for r in rows:
        parts.append("%d %s" % (len(r), " ".join(map(str, r))) if r else "0")
    for i in range(p):
        b = [] if i in null else rhs[i]
        parts.append(("%d %d %s" % (1 if i in null else 0, len(b), " ".join(map(str, b)))).rstrip())
    return " ".join(parts)


def xor_rows(rows, x0):
    """right-hand side of a CONSISTENT system: rhs_i = sum of the chosen unknown values over row i (input generation only)"""
    out = []
    for r in rows:
        acc = set()
        for j in r:
            acc ^= x0[j]
        out.append(sorted(acc))
    return out


def solver_execs_for(rows, p, q, rng, L=None):
    """the three input styles for one matrix"""
    out = []
    Ls = L or rng.choice([1, 2, 3, 4, 5, 7, 8, 9, 13, 16, 17, 32, 33, 64])
    Lsym = max(Ls, (p + 7) // 8)
    # symbolic: row i carries e_i
    out.append(("solver-symbolic-rhs", [solve_line(0, p, q, Lsym, rows, [[i] for i in range(p)], set())]))
    # numeric, x0_j = e_j  (rhs_i = row i); zero right-hand sides given as NULL for odd i
    Ln = max(Ls, (q + 7) // 8)
    rhs = xor_rows(rows, [{j} for j in range(q)])
    out.append(("solver-numeric-rhs", [solve_line(1, p, q, Ln, rows, rhs, {i for i in range(p) if not rhs[i] and i % 2 == 1})]))
    # numeric, few distinct unknown values (many zero right-hand sides), zero right-hand sides given as NULL
    vals = [set(), {0}, {0, 8 * Ls - 1}, {1, 2}]
    x0 = [rng.choice(vals) for _ in range(q)]
    rhs = xor_rows(rows, x0)
    out.append(("solver-numeric-rhs-null-constants", [solve_line(1, p, q, Ls, rows, rhs, {i for i in range(p) if not rhs[i] and rng.random() < 0.8})]))
    return out


def all_systems(pmax):
    for p in range(1, pmax + 1):
        for q in range(1, p + 1):
            for code in range(1 << (p * q)):
                yield p, q, [[j for j in range(q) if code >> (i * q + j) & 1] for i in range(p)]


def gen_solver(rng, tier):
    q_ = tier == "quick"
    execs = []
    nsys = 0
    for p, q, rows in all_systems(3):
        execs += solver_execs_for(rows, p, q, rng)
        nsys += 1
    exhaustive_upto = 3
    if q_:
        for _ in range(2500):
            p = 4
            q = rng.choice([1, 2, 3, 4, 4, 4])
            code = rng.getrandbits(p * q)
            rows = [[j for j in range(q) if code >> (i * q + j) & 1] for i in range(p)]
            execs += solver_execs_for(rows, p, q, rng)
            nsys += 1
    else:
        exhaustive_upto = 4
        for p, q, rows in all_systems(4):
            if p < 4:
                continue
            execs += solver_execs_for(rows, p, q, rng)
            nsys += 1
    # random larger systems up to 40 x 33
    for _ in range(150 if q_ else 2500):
        q = rng.choice([5, 8, 12, 16, 20, 31, 32, 33, rng.randrange(5, 34)])
        p = min(40, q + rng.choice([0, 0, 1, 2, 3, 5, 7]))
        style = rng.random()
        if style < 0.45:
            rows = [[j for j in range(q) if rng.random() < 0.5] for _ in range(p)]
        elif style < 0.75:
            rows = [sorted(set(rng.randrange(q) for _ in range(3))) for _ in range(p)]
        elif style < 0.9:
            # a permuted triangular system with extra rows: full rank by construction, pivots below the diagonal
            base = [sorted({i} | {j for j in range(i + 1, q) if rng.random() < 0.3}) for i in range(q)]
            base += [sorted(set(rng.randrange(q) for _ in range(4))) for _ in range(p - q)]
            rng.shuffle(base)
            rows = base
        else:
            # rank deficient with enough rows: two equal columns or an empty column
            rows = [[j for j in range(q) if rng.random() < 0.5] for _ in range(p)]
            a, b = rng.sample(range(q), 2)
            if rng.random() < 0.5:
                rows = [sorted((set(r) - {b}) | ({b} if a in r else set())) for r in rows]
            else:
                rows = [[j for j in r if j != a] for r in rows]
        execs += solver_execs_for(rows, p, q, rng)
        nsys += 1
    return execs, nsys, exhaustive_upto


# ------------------------------------------------------------------------------------------------ check

def model_checking(bdir, tier):
    q = tier == "quick"
    mat = vlib.run_tlc(os.path.join(vlib.SPEC, "DenseMatrix.tla"), os.path.join(vlib.SPEC, "DenseMatrix.cfg" if q else "DenseMatrix_thorough.cfg"),
                       os.path.join(bdir, "mc_mat"), workers=vlib.NCPU, xmx="6g", timeout=2400)
    if mat.violated or "Model checking completed. No error" not in mat.out:
        raise vlib.Infra("DenseMatrix: the design-level model violates one of its own invariants:\n" + mat.out[-3000:])
    sol = vlib.run_tlc(os.path.join(vlib.SPEC, "DenseMatrix.tla"), os.path.join(vlib.SPEC, "DenseSolve.cfg"),
                       os.path.join(bdir, "mc_sol"), workers=vlib.NCPU, xmx="4g", timeout=2400)
    if sol.violated or "Model checking completed. No error" not in sol.out:
        raise vlib.Infra("DenseMatrix: the solver lemmas fail on the model itself:\n" + sol.out[-3000:])
    return mat, sol


def make_execs(bdir, tier, rng):
    q = tier == "quick"
    execs = []
    for C in EDGE_COLS:
        for R in (1, 2, 3):
            for _ in range(1 if q else 6):
                execs.append(gen_boundary(rng, R, C))
    for Ca in EDGE_COLS:
        for Cb in EDGE_COLS:
            for kind in ("copy", "copyrows", "copycols"):
                for _ in range(1 if q else 4):
                    Ra, Rb = rng.choice([1, 2, 3]), rng.choice([1, 2, 3])
                    if kind == "copy" and (Ca > Cb or Ra > Rb):
                        Ra = min(Ra, Rb)
                        if Ca > Cb:
                            continue
                    if kind == "copyrows" and Ca > Cb:
                        continue
                    if kind == "copycols" and Ra > Rb:
                        Ra = Rb
                    execs.append(gen_boundary_copies(rng, Ra, Ca, Rb, Cb, kind))
    ex, alpha = gen_exhaustive(3 if q else 4)
    execs += ex
    small = [(1, 1), (1, 3), (2, 2), (2, 3), (3, 2), (3, 3), (3, 1)]
    edge = small + [(r, c) for r in (1, 2, 3) for c in EDGE_COLS] + [(5, 40), (4, 96)]
    execs += gen_random(rng, 150 if q else 2000, 40, small, False, "random-element-ops")
    execs += gen_random(rng, 150 if q else 2000, 40, edge, False, "random-element-ops")
    execs += gen_random(rng, 150 if q else 2000, 40, small, True, "random-with-copies")
    execs += gen_random(rng, 150 if q else 2000, 40, edge, True, "random-with-copies")
    # rows of thousands of columns (the word-array popcount behind row_weight_ignore_first): all ones, byte lanes, random
    for C in ([2100, 4160] if q else [2048, 2100, 4160, 8200]):
        for pat in range(3):
            cols = list(range(C)) if pat == 0 else [c for c in range(C) if (c % 64) // 8 == 3 or rng.random() < 0.05] if pat == 1 else \
                   [c for c in range(C) if rng.random() < 0.5]
            cs = set(cols)
            # the wide matrix is built in one operation: column j of matrix 1 := column 1 (a one in row 1) or column 0 (empty) of matrix 0
            ln = ["dalloc 0 2 2", "dset 0 1 1 1", "dalloc 1 2 %d" % C,
                  "dcopycols 0 1 %d %s" % (C, " ".join("1" if c in cs else "0" for c in range(C))),
                  "drw 1 1", "drwi 1 1 0", "drwi 1 1 32", "drwi 1 1 %d" % (32 * rng.randrange(1, C // 64)), "drw 1 0", "dempty 1 0",
                  "dcw 1 %d" % (C - 1), "dfree 1", "dfree 0"]
            execs.append(("wide-rows", ln))
    sim, simstates = from_simulation(bdir, 20 if q else 300, 40, 60 if q else 1500)
    execs += sim
    nmat = len(execs)
    pops, npop = gen_popcounts(rng, tier)
    execs += pops
    sol, nsys, upto = gen_solver(rng, tier)
    execs += sol
    return execs, {"alphabet": alpha, "simstates": simstates, "matrix_execs": nmat, "popcount_inputs": npop, "systems": nsys,
                   "solver_execs": len(sol), "solver_exhaustive_upto": upto}


def run(pid, tier):
    t0 = time.time()
    rng = random.Random(vlib.seed())
    bdir = vlib.scratch("%s_%d" % (pid, os.getpid()))      # concurrent runs of the same check do not share scratch
    verdict = vlib.Verdict(pid)
    try:
        mat, solm = model_checking(bdir, tier)
        t1 = time.time()
        drv = mxcommon.build(bdir)
        execs, info = make_execs(bdir, tier, rng)
        t2 = time.time()
        res = mxcommon.run_chunks(bdir, drv, execs, "DenseTrace", tag="dn", xmx="2g")
        counts = mxcommon.judge(pid, res, verdict)
        rc = verdict.finish()
        st = [sum(s[i] for s in res["stats"]) for i in range(7)] if res["stats"] else [0] * 7
        fam = {}
        for f, ex in execs:
            fam[f] = fam.get(f, 0) + 1
        opcount = {}
        for _, ex in execs:
            for ln in ex:
                o = ln.split(" ", 1)[0]
                opcount[o] = opcount.get(o, 0) + 1
        samples = []
        for f in sorted(fam):
            ex = next(e for ff, e in execs if ff == f)
            samples.append("%s: %s" % (f, " ; ".join(x if len(x) < 100 else x[:97] + "..." for x in ex[:10])))
        cov = {
            "states": mat.distinct + solm.distinct + res["distinct"],
            "transitions": mat.states + solm.states + res["states"] + info["simstates"],
            "traces_validated_against_impl": res["execs"],
            "samples": samples,
            "evaluations": st[0] + st[1] + st[2] + st[3],
            "distinct_nontrivial": len({tuple(ex) for _, ex in execs}),
            "rule": "an evaluation is one recorded call of the real code compared by TLC with the specification: a matrix "
                    "operation (returned value and all bits of the operand matrices), a popcount, or a solver call (status "
                    "against TLC's rank decision, solution against the specification's unique solution); counted by the "
                    "trace specification itself; executions are distinct as command sequences",
            "exhaustive": False,
            "model_checking": {"matrix_model_distinct_states": mat.distinct, "matrix_model_states_generated": mat.states,
                               "solver_lemmas_states_all_systems_up_to_4x4_built_row_by_row": solm.distinct},
            "exhaustive_short_sequences": {"alphabet": info["alphabet"], "max_length": 3 if tier == "quick" else 4, "executions": fam.get("exhaustive", 0)},
            "column_counts_at_word_boundaries": EDGE_COLS,
            "matrix_operations_validated": st[0],
            "popcount_calls_validated": st[1],
            "hweight8_inputs_exhaustive": 256,
            "solver": {"systems": info["systems"], "calls_validated": st[2] + st[3], "all_systems_up_to_p": info["solver_exhaustive_upto"],
                       "full_column_rank_by_TLC": st[2], "rank_deficient_by_TLC": st[3], "calls_with_NULL_constant_terms": st[4],
                       "successful_calls_returning_a_NULL_symbol": st[5], "largest_system": "40x33"},
            "executions_ended_by_memory_fault": st[6],
            "executions_by_family": fam,
            "operations_issued": opcount,
            "violation_keys": counts,
            "trace_lines": res["lines"],
            "drift_lines": len(res["drift"]),
            "tlc_simulation_states": info["simstates"],
            "timing_s": {"model_checking": round(t1 - t0, 1), "build_and_generate": round(t2 - t1, 1),
                         "driver_max_chunk": round(res["t_driver"], 1), "tlc_max_chunk": round(res["t_tlc"], 1)},
        }
        vlib.write_evidence(pid, tier, "model_checking", cov, time.time() - t0, len(verdict.violations), [
            "in-range use as in Enabled of DenseMatrix.tla; of_mod2dense_row_weight_ignore_first only for nb_ignore a multiple of 32 "
            "(DESIGN scope note)",
            "of_mod2dense_copycols is exercised only when the destination has no 1 in rows beyond the source's row count (the code "
            "leaves those rows, the original documentation zeroes them)",
            "of_hweight_array is exercised with arrays whose bits beyond 'size' are zero",
            "solver: right-hand sides are consistent (symbolic e_i per row, or M x0 for chosen x0); a NULL constant term means zero, "
            "a NULL returned symbol is read as zero; minimal control block (encoding_symbol_length, tmp_tab_symbols, nb_tmp_symbols)",
            "sanitizer-visible faults only (AddressSanitizer, clang)",
        ])
        for d in res["drift"][:5]:
            print("DRIFT module=DenseMatrix %s" % d)
        return rc
    finally:
        vlib.cleanup(bdir)


def replay(pid, path):
    bdir = vlib.scratch("%s_replay_%d" % (pid, os.getpid()))
    try:
        drv = mxcommon.build(bdir)
        res = mxcommon.run_chunks(bdir, drv, mxcommon.load_replay(os.path.abspath(path)), "DenseTrace", tag="rp", nproc=1)
        verdict = vlib.Verdict(pid)
        mxcommon.judge(pid, res, verdict)
        return verdict.finish()
    finally:
        vlib.cleanup(bdir)
