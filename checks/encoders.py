"""C06: encoders emit the canonical codeword; source buffers untouched; NULL slot allocated."""
import os
import random
import time

import apicheck
import gen
import vlib

P = gen.P


def workload(tier, rng):
    q = tier == "quick"
    execs = []
    # Reed-Solomon: every repair row of every (m, k) for small n, sampled k for large n
    rs_pts = []
    for n in range(2, (9 if q else 15) + 1):
        for k in range(1, n):
            rs_pts.append(P(2, k, n - k, m=4))
            if n <= (7 if q else 12):
                rs_pts.append(P(1, k, n - k))
                rs_pts.append(P(2, k, n - k, m=8))
    big = [(1, 200), (2, 254), (5, 250), (16, 239), (41, 40), (100, 155), (128, 127), (223, 32), (254, 1)]
    if not q:
        big += [(k, 255 - k) for k in (3, 7, 10, 25, 33, 64, 77, 150, 180, 201, 240, 250, 253)]
    for (k, r) in big:
        reps = r if (q and r <= 2) or (not q and r <= 40) else (2 if q else 12)
        esis = sorted(set([k, k + r - 1] + rng.sample(range(k, k + r), min(r, reps))))
        for c, m in ((1, 0), (2, 8)):
            p = P(c, k, r, m=m, length=k + rng.choice([0, 1, 7]))
            execs.append(gen.encode_exec(p, order=esis, slots=["buf", "null"]))
    for p in rs_pts:
        p2 = P(p.codec, p.k, p.r, m=p.m, length=p.len + rng.choice([0, 0, 1, 3]), align=gen.pick_align(rng))
        execs.append(gen.encode_exec(p2, slots=rng.choice(["buf", "null", ["buf", "null"]])))
        if p2.n <= 12 and rng.random() < 0.4:      # repair symbols asked for again after a source symbol was zeroed
            execs.append(gen.encode_exec(p2, slots="buf", rebuild=(rng.randrange(p2.k), rng.sample(range(p2.k, p2.n), rng.randint(1, p2.r)))))
    # LDPC-Staircase: in-order encoding (repair i needs repair i-1), NULL and application slots
    grid = [(k, r, n1, seed) for k in ([1, 2, 3, 5, 8, 13, 21, 40] if q else list(range(1, 31)) + [40, 64, 100, 255])
            for r in sorted({max(3, k // 2), max(3, k), 2 * k + 3})
            for n1 in (3, 4, 7) if n1 <= r
            for seed in ([1, 77] if q else [1, 77, 2147483646])]
    for (k, r, n1, seed) in grid:
        length = gen.need_len(3, k, 0) + rng.choice([0, 1, 8])
        p = P(3, k, r, N1=n1, seed=seed, length=length, align=gen.pick_align(rng))
        execs.append(gen.encode_exec(p, slots=rng.choice(["buf", "null", ["null", "buf"]])))
        if k <= 21 and rng.random() < 0.4:
            execs.append(gen.encode_exec(P(3, k, r, N1=n1, seed=seed, length=gen.need_len(3, k, 0)), slots="buf",
                                         rebuild=(rng.randrange(k), rng.sample(range(k, k + r), r) if rng.random() < 0.5 else list(range(k, k + r)))))
    # high code rates: long, uneven equations (several columns may draw the same row)
    for _ in range(60 if q else 1200):
        k = rng.randint(20, 80); r = rng.randint(4, 12); n1 = rng.randint(3, min(10, r))
        p = P(3, k, r, N1=n1, seed=rng.choice([1, 2, 3, rng.randint(1, 2 ** 31 - 2)]), length=gen.need_len(3, k, 0))
        execs.append(gen.encode_exec(p, slots=rng.choice(["buf", "null"])))
    # replicated identity payloads: the generator row must show up in every block of k positions, so the
    # whole symbol (all byte-kernel branches: 64/32-bit words, 16-byte unrolling, tails) carries non-zero data
    for _ in range(120 if q else 1500):
        c = rng.choice([1, 2, 2, 3])
        length = rng.choice(list(range(1, 81)) + [100, 128, 131, 255, 1000])
        if rng.random() < 0.12:      # sizes at which slicing / blocking / narrowed counters change regime
            length = rng.choice([2048, 4095, 4096, 4097] if c == 3 else [2048, 4095, 4096, 4097, 8192, 12288, 16384, 65536, 65537, 70000])
        if c == 3:
            k = rng.randint(1, 24); r = rng.randint(3, 16)
            p = P(3, k, r, N1=rng.randint(3, min(r, 7)), seed=rng.randint(1, 10 ** 9), length=max(length, gen.need_len(3, k, 0)),
                  payload="idr", align=rng.randint(0, 7))
        else:
            m = 0 if c == 1 else rng.choice([4, 4, 8]); lim = 15 if m == 4 else 40
            n = rng.randint(2, lim); k = rng.randint(1, n - 1)
            p = P(c, k, n - k, m=m, length=max(length, gen.need_len(c, k, m)), payload="idr", align=rng.randint(0, 7))
        execs.append(gen.encode_exec(p, slots=rng.choice(["buf", "null", ["buf", "null"]]), both=rng.random() < 0.15))
    # every codec at the page / 16-bit sizes, whatever the random draws above picked
    for length in ([4096, 8192, 65536] if q else [2048, 4095, 4096, 4097, 8192, 12288, 16384, 32768, 65535, 65536, 65537, 131072]):
        for (c, m) in ((1, 0), (2, 8), (2, 4), (3, 0)):
            if c == 3 and length > 8192:
                continue
            k = rng.choice([3, 5, 6, 7]); r = rng.randint(3, 5)      # k not a power of two: the replicated payload has period k
            p = P(c, k, r, m=m, N1=3 if c == 3 else 0, seed=rng.randint(1, 10 ** 6), length=length, payload="idr", align=gen.pick_align(rng))
            execs.append(gen.encode_exec(p, slots=["buf", "null"]))
    # random payloads: only status / slot / source-buffer integrity are observable
    for _ in range(20 if q else 200):
        c = rng.choice([1, 2, 3])
        if c == 3:
            k = rng.randint(1, 60); r = rng.randint(3, 60); p = P(3, k, r, N1=rng.randint(3, min(r, 9)), seed=rng.randint(1, 10 ** 9),
                                                                   length=rng.choice([1, 2, 7, 8, 9, 33]), payload="rnd", align=rng.randint(0, 7))
        else:
            m = 0 if c == 1 else rng.choice([4, 8]); lim = 15 if m == 4 else 255
            n = rng.randint(2, lim); k = rng.randint(1, n - 1)
            p = P(c, k, n - k, m=m, length=rng.choice([1, 2, 7, 8, 9, 33]), payload="rnd", align=rng.randint(0, 7))
        execs.append(gen.encode_exec(p, slots=["buf", "null"]))
    return execs


def run(pid, tier):
    t0 = time.time()
    rng = random.Random(vlib.seed() * 7919 + 6)
    bdir = vlib.scratch(pid)
    verdict = vlib.Verdict(pid)
    try:
        # model side: the generator is well defined -- evaluation points pairwise distinct, Mul = MulDef,
        # and peeling from the sources releases every LDPC repair symbol (PchkModel.EncoderDefined)
        mc = vlib.run_tlc(os.path.join(vlib.SPEC, "GF2mModel.tla"), os.path.join(vlib.SPEC, "GF2mModel.cfg"),
                          os.path.join(bdir, "mc"), workers=4, xmx="4g", timeout=1800)
        if mc.violated or "Model checking completed. No error" not in mc.out:
            raise vlib.Infra("GF2mModel: field/generator lemma fails in the specification itself:\n" + mc.out[-3000:])
        # the encoding-matrix construction as the code performs it (Vandermonde fill, synthetic-division inverse,
        # product) yields exactly the generator rows the traces are judged against
        cfg2 = "RsCodec_quick" if tier == "quick" else "RsCodec_gf16"
        mc2 = vlib.run_tlc(os.path.join(vlib.SPEC, "RsCodecModel.tla"), os.path.join(vlib.SPEC, cfg2 + ".cfg"),
                           os.path.join(bdir, "mc2"), workers=8, xmx="4g", timeout=1800)
        if mc2.violated or "Model checking completed. No error" not in mc2.out:
            raise vlib.Infra("RsCodecModel: the transcribed matrix construction disagrees with the generator definition:\n" + mc2.out[-3000:])
        drv = vlib.build_driver(bdir)
        execs = workload(tier, rng)
        lines = gen.join(execs).split("\n")
        api = apicheck.run_api(bdir, drv, lines)
        apicheck.judge(pid, api, verdict)
        rc = verdict.finish()
        st = apicheck.stats_summary(api)
        cov = {
            "states": mc.distinct + mc2.distinct + api["distinct"],
            "transitions": mc.states + mc2.states + api["states"],
            "traces_validated_against_impl": api["execs"],
            "samples": apicheck.sample_execs(lines, 3),
            "evaluations": len(execs),
            "distinct_nontrivial": apicheck.nontrivial_distinct(api, lambda x: x[8] > 0),
            "rule": "encoder sessions distinct as behaviour texts (codec, m, k, n-k, length, alignment, slot modes, ESIs built); "
                    "non-trivial = at least one of_build_repair_symbol validated against the generator / parity equations",
            "spec_counters": st,
            "trace_lines": api["lines"],
            "exhaustive": False,
        }
        vlib.write_evidence(pid, tier, "model_checking", cov, time.time() - t0, len(verdict.violations),
                            ["identity payloads reveal generator rows (linearity; kernels are C13, tables C14)",
                             "RS generator row uniquely defined by g * V_top = V[esi] on the points 0,1,x,x^2,..."])
        return rc
    finally:
        vlib.cleanup(bdir)


def replay(pid, path):
    import decoders
    return decoders.replay(pid, path)
