"""C14: the GF(2^4)/GF(2^8) tables are the fields they claim to be.

dump_tables (built from the working tree, tables reached by header / translation-unit
inclusion) writes every entry of the 13 tables; TLC (spec/TableTrace.tla) compares each of
them with the arithmetic defined in spec/GF2m.tla from the primitive polynomials and checks
that the dump is complete.  The domain is finite and enumerated completely."""
import ast
import json
import os
import re
import subprocess
import time

import vlib

SPEC = os.path.join(vlib.SPEC, "TableTrace.tla")
CFG = os.path.join(vlib.SPEC, "TableTrace.cfg")
NTABLES = 13


def vmsgs(out):
    """TLC pretty-prints long tuples over several lines: join them before parsing.  A VMSG tuple
    ends with >> at the end of a line (the context string may itself contain << >>).  Every
    "VMSG" occurrence must be parsed: a message that cannot be read is never dropped silently."""
    norm = re.sub(r'<<\s*"VMSG",\s*(.*?)\s*>>[ \t]*$',
                  lambda m: '<<"VMSG", ' + re.sub(r"\s*\n\s*", " ", m.group(1)) + ">>", out, flags=re.S | re.M)
    msgs = []
    for m in re.finditer(r'^<<"VMSG", (.*)>>[ \t]*$', norm, flags=re.M):
        try:
            t = ast.literal_eval("(" + m.group(1) + ",)")
            msgs.append({"line": t[0], "exec": t[1], "tags": t[2].split(","), "check": t[3], "codec": t[4], "ctx": t[5]})
        except Exception:
            continue
    if len(msgs) != out.count('"VMSG"'):
        raise vlib.Infra("could not parse every VMSG line of the TLC output (%d of %d):\n%s" % (
            len(msgs), out.count('"VMSG"'), out[-2000:]))
    return msgs


def validate(pid, trace, mdir, verdict, replay_path):
    r = vlib.run_tlc(SPEC, CFG, mdir, env={"TRACE": trace, "MODE": "full"}, workers=1, timeout=900, xmx="2g")
    consumed = "Model checking completed" in r.out and not ("Postcondition" in r.out and "is false" in r.out)
    if not consumed:
        raise vlib.Infra("table dump not fully consumed by TableTrace:\n" + r.out[-3000:])
    msgs = vmsgs(r.out)
    bad = [m for m in msgs if "INFRA" in m["tags"] or "SPEC" in m["tags"]]
    if bad:
        raise vlib.Infra("TableTrace reports a dump/specification problem (no verdict): %r" % bad[:3])
    if not re.search(r'<<"COVER", "complete", \d+>>', r.out):
        raise vlib.Infra("TableTrace did not reach the completeness check (no End record?)")
    for m in msgs:
        if pid in m["tags"]:
            table = m["ctx"].split("[")[0].split(" ")[0]
            verdict.report("%s/%s" % (m["check"], table), "check=%s %s" % (m["check"], m["ctx"]), replay_path)
    drift = re.findall(r'^<<"DRIFT", (.*)>>$', r.out, flags=re.M)
    return r, msgs, drift


def run(pid, tier):
    t0 = time.time()
    bdir = vlib.scratch(pid)
    verdict = vlib.Verdict(pid)
    try:
        vlib.stage_sources(bdir)
        prog = vlib.build_prog(bdir, "dump_tables", os.path.join(vlib.HARNESS, "dump_tables.c"), [])
        trace = os.path.join(bdir, "tables.ndjson")
        e = dict(os.environ)
        e.update(vlib.ASAN_ENV)
        try:
            p = subprocess.run([prog, trace], env=e, capture_output=True, text=True, timeout=120)
        except subprocess.TimeoutExpired:
            raise vlib.Infra("dump_tables timed out")
        if p.returncode != 0:
            raise vlib.Infra("dump_tables failed (%d): %s" % (p.returncode, p.stderr[-2000:]))
        recs = [json.loads(x) for x in open(trace)]
        rows = [x for x in recs if x.get("e") == "Tab"]
        replay_path = os.path.join(vlib.VERIF, "replays", pid, "tables.tables.ndjson")
        r, msgs, drift = validate(pid, trace, os.path.join(bdir, "tlc"), verdict, replay_path)
        if verdict.violations or verdict.known_hits:
            vlib.save_replay(pid, "tables", [trace])
        rc = verdict.finish()
        entries = sum(x["n"] for x in rows)
        per_table = {}
        for x in rows:
            per_table[x["t"]] = per_table.get(x["t"], 0) + x["n"]
        samples = [{"t": x["t"], "row": x["row"], "n": x["n"], "first_entries": x["v"][:12]}
                   for x in (rows[0], rows[len(rows) // 3], rows[-1])]
        cov = {
            "states": r.distinct,
            "transitions": r.states,
            "traces_validated_against_impl": len(per_table),
            "samples": samples,
            "evaluations": entries,
            "distinct_nontrivial": sum(1 for x in rows for v in x["v"] if v != 0),
            "rule": "one evaluation = one table entry compared by TLC with the field arithmetic of GF2m.tla "
                    "(MulDef for products and inverses, powers of x for exp/log); non-trivial = entry whose value is not 0",
            "table_rows": len(rows),
            "entries_per_table": per_table,
            "lemmas": "Mul = MulDef for all 16^2 and 256^2 pairs (both argument orders), a * Inv(a) = 1 for all a # 0, "
                      "checked in the same TLC run",
            "drift": drift,
            "exhaustive": True,
        }
        vlib.write_evidence(pid, tier, "model_checking", cov, time.time() - t0, len(verdict.violations),
                            ["the static const tables of algebra_2_4.h / algebra_2_8.h seen by the dump program are "
                             "initialised from the same header text as the copies inside the library objects",
                             "log 0 = 2^m - 1 and inv 0 = 0 are conventions documented in of_generate_gf, not mathematics",
                             "entries of a log/inv table at indices >= 2^m are outside the property (reported as DRIFT)"])
        for d in drift[:5]:
            print("DRIFT module=TableTrace %s" % d)
        return rc
    finally:
        vlib.cleanup(bdir)


def replay(pid, path):
    path = os.path.abspath(path)
    bdir = vlib.scratch(pid + "_replay")
    try:
        verdict = vlib.Verdict(pid)
        validate(pid, path, os.path.join(bdir, "tlc"), verdict, path)
        return verdict.finish()
    finally:
        vlib.cleanup(bdir)
