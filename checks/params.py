"""C09: parameters and arguments are validated: accepted => usable, unusable => rejected."""
import itertools
import os
import random
import time

import apicheck
import gen
import vlib

P = gen.P
U32 = 2 ** 32 - 1


def raw_exec(codec, role, k, r, length, m, n1, seed):
    return ["create 0 %d %s" % (codec, role), "rawparams 0 %d %d %d %d %d %d" % (k, r, length, m, n1, seed), "release 0"]


def grid(tier, rng):
    q = tier == "quick"
    execs = []
    lens = [0, 1, 2, 65536, U32]
    # Reed-Solomon GF(2^8)
    ks = [0, 1, 2, 127, 254, 255, 256, 65536, 2 ** 31, U32]
    for k in ks:
        rs = {0, 1, 2, 65536, U32, 2 ** 31}
        if k <= 256:
            rs |= {max(0, 255 - k - 1), max(0, 255 - k), 255 - k + 1, 256 - k + 1}
        for r in sorted(rs):
            for length in (lens if not q else [0, 1, U32]):
                execs.append(raw_exec(1, rng.choice(["enc", "dec"]), k, r, length, 0, 0, 0))
    # Reed-Solomon GF(2^m)
    for m in [0, 1, 3, 4, 5, 8, 9, 16]:
        lim = (1 << m) - 1 if m in (4, 8) else 15
        for k in [0, 1, 2, lim - 1, lim, lim + 1, 65536, U32]:
            rs = {0, 1, 2, max(0, lim - k - 1), max(0, lim - k), lim - k + 1, 65536, U32}
            for r in sorted(x for x in rs if x >= 0):
                for length in ([0, 1, U32] if q else lens):
                    execs.append(raw_exec(2, rng.choice(["enc", "dec"]), k, r, length, m, 0, 0))
    # field size negotiated first through of_set_control_parameter(OF_RS_CTRL_SET_FIELD_SIZE), then parameters
    # with the same or another m: the limits must follow the m of the parameters
    for m1 in (4, 8):
        for m2 in (4, 8, 5):
            lim = (1 << m2) - 1 if m2 in (4, 8) else 15
            for (k, r) in {(1, 1), (lim - 1, 1), (lim, 1), (lim + 1, 1), (10, 5), (20, 5), (15, 1), (16, 1), (200, 55), (1, lim - 1), (1, lim)}:
                execs.append(["create 0 2 %s" % rng.choice(["enc", "dec"]), "setctrl 0 1024 %d 2" % m1,
                              "rawparams 0 %d %d 4 %d 0 0" % (k, r, m2), "release 0"])
    # a rejected configuration stays rejected when it is tried again on the same session, whatever was selected or
    # rejected before it (field size through the control parameter, a configuration refused for another reason)
    for m1 in (4, 8):
        for bad in (0, 1, 5, 9, 16):
            role = rng.choice(["enc", "dec"])
            execs.append(["create 0 2 %s" % role, "setctrl 0 1024 %d 2" % m1] + ["rawparams 0 3 2 4 %d 0 0" % bad] * 2 + ["release 0"])
            execs.append(["create 0 2 %s" % role, "rawparams 0 300 5 4 %d 0 0" % m1] + ["rawparams 0 3 2 4 %d 0 0" % bad] * 2 +
                         ["rawparams 0 3 2 4 %d 0 0" % m1, "release 0"])
    for (c, first, again) in ((1, (300, 5, 4, 0, 0, 0), (0, 5, 4, 0, 0, 0)), (1, (0, 5, 4, 0, 0, 0), (200, 100, 4, 0, 0, 0)),
                              (3, (10, 5, 4, 0, 2, 1), (10, 5, 4, 0, 6, 1)), (3, (10, 5, 4, 0, 3, 0), (10, 5, 0, 0, 3, 1)),
                              (3, (0, 5, 4, 0, 3, 1), (10, 5, 4, 0, 3, -1)), (5, (0, 4, 4, 0, 0, 0), (4, 0, 4, 0, 0, 0))):
        role = rng.choice(["enc", "dec"])
        execs.append(["create 0 %d %s" % (c, role), "rawparams 0 %d %d %d %d %d %d" % first] + ["rawparams 0 %d %d %d %d %d %d" % again] * 2 + ["release 0"])
    # LDPC-Staircase (advertised maxima are read from the session; 50000 in this build)
    mk = 50000
    seeds = [-2 ** 31, -1, 0, 1, 2 ** 31 - 2, 2 ** 31 - 1]
    for k in [0, 1, 2, 7, mk - 3, mk - 1, mk, mk + 1, 65536, 2 ** 31, U32]:
        rs = {0, 1, 2, 3, 4, 65536, U32}
        if k <= mk + 1:
            rs |= {max(0, mk - k - 1), max(0, mk - k), mk - k + 1}
        for r in sorted(rs):
            n1s = sorted({0, 1, 2, 3, 4, 255, min(255, r), min(255, r + 1)})
            big = k + r > 2000
            for n1 in (n1s if not big else [3, min(255, r + 1)]):
                for seed in (seeds if (not big and not q) else [1, rng.choice(seeds)]):
                    for length in ([1] if big else ([0, 1] if q else [0, 1, 2, 65536])):
                        role = rng.choice(["enc", "dec"])
                        execs.append(raw_exec(3, role, k, r, length, 0, n1, seed))
            # a very long symbol is inside the limits: use a session that allocates nothing of that size
            if not big:
                execs.append(raw_exec(3, "enc", k, r, U32, 0, 3, 1))
    return execs


def cycles(tier, rng):
    """accepted boundary points must then encode and decode correctly"""
    q = tier == "quick"
    pts = [P(1, 1, 1, length=1), P(1, 1, 254, length=2), P(1, 254, 1, length=1, payload="rnd"), P(1, 128, 127, length=3, payload="rnd"),
           P(2, 1, 1, m=4, length=1), P(2, 14, 1, m=4, length=7), P(2, 1, 14, m=4, length=1), P(2, 7, 8, m=4, length=4),
           P(2, 1, 1, m=8, length=1), P(2, 254, 1, m=8, length=1, payload="rnd"), P(2, 1, 254, m=8, length=1),
           P(3, 1, 3, N1=3, seed=1, length=1), P(3, 2, 3, N1=3, seed=2147483646, length=1), P(3, 5, 7, N1=7, seed=1, length=1),
           P(3, 40, 4, N1=4, seed=5, length=5), P(3, 3, 255, N1=255, seed=9, length=1), P(3, 300, 255, N1=254, seed=3, length=2, payload="rnd")]
    execs = []
    if not q:
        # the largest accepted LDPC points: configured in both roles, a few repair symbols built, released
        # (a full decode of n = 50000 is beyond what the TLA+ oracle evaluates in reasonable time)
        for p in (P(3, 49997, 3, N1=3, seed=1, length=1, payload="rnd"), P(3, 25000, 25000, N1=3, seed=77, length=1, payload="rnd"),
                  P(3, 1, 49999, N1=3, seed=5, length=1, payload="rnd")):
            execs.append(["create 0 3 enc", p.params_line(0, raw=True), "release 0"])
            execs.append(["create 0 3 dec", p.params_line(0, raw=True), "release 0"])
    for (m1, p) in ((8, P(2, 10, 5, m=4, length=5)), (4, P(2, 20, 5, m=8, length=20)), (4, P(2, 10, 5, m=4, length=5)), (8, P(2, 20, 5, m=8, length=20))):
        for base in (gen.encode_exec(p), gen.decode_exec(p, rng.sample(range(p.n), p.k), finish=True, probe="end")):
            execs.append(base[:1] + ["setctrl 0 1024 %d 2" % m1] + base[1:])
    # the smallest accepted configurations, all of them: "accepted => usable" for every (k, n-k, N1) corner of the
    # LDPC construction (k = 1, N1 = n-k, even/odd N1, n-k odd/even) and every small Reed-Solomon code
    small = []
    for k in range(1, 5 if q else 7):
        for n1 in range(3, 8 if q else 10):
            for r in range(n1, n1 + (4 if q else 6)):
                small.append(P(3, k, r, N1=n1, seed=rng.choice([1, 2, rng.randint(1, 2 ** 31 - 2)])))
    for n in range(2, 7 if q else 10):
        for k in range(1, n):
            small += [P(1, k, n - k), P(2, k, n - k, m=4), P(2, k, n - k, m=8)]
    for p in small:
        execs.append(gen.encode_exec(p, slots=rng.choice(["buf", "null"])))
        reps = list(range(p.k, p.n))
        rng.shuffle(reps)
        if p.codec == 3:
            execs.append(gen.decode_exec(p, reps, finish=True, probe="end"))                       # repair symbols only
            execs.append(gen.decode_exec(p, sorted(rng.sample(range(p.n), min(p.n, p.k + 1))), api="setavail", finish=True, probe="end"))
        else:
            execs.append(gen.decode_exec(p, rng.sample(range(p.n), p.k), finish=rng.choice([True, False]), probe="end"))
    for p in pts:
        execs.append(gen.encode_exec(p))
        enc = gen.encode_exec(p)
        execs.append(enc[:2] + ["ctrl 0 1", "ctrl 0 2"] + enc[2:])
        sub = rng.sample(range(p.n), min(p.n, p.k + (2 if p.codec == 3 else 0)))
        execs.append(gen.decode_exec(p, sub, api="recv", finish=True, probe="end"))
        execs.append(gen.decode_exec(p, sorted(rng.sample(range(p.n), p.k)), api="setavail", finish=True, probe="end", cb="buf"))
        # the third role the API offers: an OF_ENCODER_AND_DECODER instance accepts the same parameters and must then
        # be usable for either job
        execs.append(gen.encode_exec(p, both=True))
        execs.append(gen.decode_exec(p, sub, api=rng.choice(["recv", "setavail"]) if sub == sorted(sub) else "recv", finish=True, probe="end", both=True, builds_before=rng.choice([0, 1, p.r])))
    return execs


def misuse(tier, rng):
    """every single-argument corruption inside an otherwise valid life cycle; the session must stay usable"""
    execs = []
    pts = [P(1, 4, 3, length=4), P(2, 4, 3, m=4, length=2), P(2, 4, 3, m=8, length=4), P(3, 5, 4, N1=3, seed=4, length=1)]
    dec_kinds = ["null_recv", "null_setavail", "null_finish", "null_gettab", "null_complete", "null_params", "null_paramptr",
                 "null_cb", "null_ctrl", "null_setctrl", "recv_nullbuf 0", "setavail_nulltab", "recv_badesi N", "recv_badesi N1",
                 "recv_badesi %d" % U32, "role_build"]
    enc_kinds = ["null_build", "build_badesi 0", "build_badesi KM1", "build_badesi N", "build_badesi %d" % U32, "role_recv",
                 "role_setavail", "role_finish", "role_gettab", "role_complete", "null_ctrl"]
    for p in pts:
        def sub(kind):
            return kind.replace("KM1", str(p.k - 1)).replace("N1", str(p.n + 1)).replace("N", str(p.n))
        for kind in dec_kinds:
            base = gen.decode_exec(p, rng.sample(range(p.n), p.k + 1), finish=True, probe="each")
            pos = rng.randrange(2, len(base) - 1)
            for at in {2, pos}:
                ex = list(base)
                ex.insert(at, "misuse 0 " + sub(kind))
                execs.append(ex)
        for kind in enc_kinds:
            base = gen.encode_exec(p)
            for at in {2, len(base) - 1}:
                ex = list(base)
                ex.insert(at, "misuse 0 " + sub(kind))
                execs.append(ex)
    return execs


def run(pid, tier):
    t0 = time.time()
    rng = random.Random(vlib.seed() * 31 + 9)
    bdir = vlib.scratch(pid)
    verdict = vlib.Verdict(pid)
    try:
        drv = vlib.build_driver(bdir)
        g, c, m = grid(tier, rng), cycles(tier, rng), misuse(tier, rng)
        execs = g + c + m
        lines = gen.join(execs).split("\n")
        api = apicheck.run_api(bdir, drv, lines, spec="ParamTrace+ApiTrace")
        # in this check every failure of an accepted session (any tag) breaks "accepted => usable"
        for mm in api["msgs"]:
            if "INFRA" not in mm["tags"] and "C09" not in mm["tags"]:
                mm["tags"].append("C09")
        apicheck.judge(pid, api, verdict)
        rc = verdict.finish()
        cov = {
            "states": api["distinct"], "transitions": api["states"],
            "traces_validated_against_impl": api["execs"],
            "samples": [" ; ".join(g[i]) for i in (0, len(g) // 2, len(g) - 1)] + [" ; ".join(m[0])],
            "evaluations": len(execs),
            "distinct_nontrivial": len({tuple(e) for e in execs}),
            "rule": "grid points distinct as (codec, role, k, n-k, length, m, N1, seed) over the Cartesian product of boundary sets "
                    "(0, 1, each limit, limit+1, 2^16, 2^31, 2^32-1; seeds around the signed 32-bit range); every point is non-trivial "
                    "(its status is compared with ParamCheck!InLimits); plus full cycles on accepted boundary points and every "
                    "single-argument corruption inside a valid life cycle",
            "grid_points": len(g), "cycle_executions": len(c), "misuse_executions": len(m),
            "trace_lines": api["lines"], "spec_counters": apicheck.stats_summary(api),
            "exhaustive": True,
        }
        vlib.write_evidence(pid, tier, "model_checking", cov, time.time() - t0, len(verdict.violations),
                            ["advertised limits: 2^m-1 for the Reed-Solomon codecs, OF_CTRL_GET_MAX_K/N as reported by the LDPC session",
                             "exhaustive refers to the finite boundary grid, not to all 2^32 values per field"])
        return rc
    finally:
        vlib.cleanup(bdir)


def replay(pid, path):
    bdir = vlib.scratch(pid + "_replay")
    try:
        drv = vlib.build_driver(bdir)
        lines = [l for l in open(path).read().split("\n") if not l.startswith("#")]
        api = apicheck.run_api(bdir, drv, lines, nproc=1, spec="ParamTrace+ApiTrace")
        for mm in api["msgs"]:
            if "INFRA" not in mm["tags"] and "C09" not in mm["tags"]:
                mm["tags"].append("C09")
        verdict = vlib.Verdict(pid)
        apicheck.judge(pid, api, verdict)
        return verdict.finish()
    finally:
        vlib.cleanup(bdir)
