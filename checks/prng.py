"""C19: the RFC 5170 PRNG of src/lib_common/of_rand.c is the Park-Miller minimal standard.

prng_driver (which #includes the staged of_rand.c) records observations of the real
of_rfc5170_srand / of_rfc5170_rand; TLC validates every record against spec/ParkMiller.tla
through spec/PrngTrace.tla.  Python only chooses inputs, builds, runs and collects."""
import concurrent.futures as cf
import json
import os
import random
import re
import shutil
import time

import apicheck
import vlib

P31 = 2 ** 31 - 1
MULT = 16807
MAXV_TOP = 255 * 50000
SPECF = os.path.join(vlib.SPEC, "PrngTrace.tla")
CFGF = os.path.join(vlib.SPEC, "PrngTrace.cfg")
DRIVER = os.path.join(vlib.HARNESS, "prng_driver.c")


# ------------------------------------------------------------------ inputs

def maxv_pool(rng, n):
    """maxv values the matrix construction can request: small ones, N1*k-t and n-k of real
    constructions, the 2^53 frontier (2^22), the largest request 255*50000, random ones"""
    fixed = [1, 2, 3, 4, 5, 7, 2 ** 22 - 1, 2 ** 22, 2 ** 22 + 1, 2 ** 23 - 1, 2 ** 23, 2 ** 23 + 1, MAXV_TOP - 1,
             MAXV_TOP, 10 ** 7, 65535, 65536, 65537, 32767, 32768]
    out = list(fixed)
    ks = list(range(1, 41)) + [100, 255, 1000, 1500, 10000, 15000, 20000, 50000]
    while len(out) < n:
        c = rng.random()
        if c < 0.45:
            k = rng.choice(ks)
            n1 = rng.randrange(3, 11)
            k = min(k, MAXV_TOP // n1)
            out.append(n1 * k - rng.randrange(0, n1 * k))       # N1*k - t, t = 0 .. N1*k-1
        elif c < 0.55:
            out.append(rng.choice(ks) * rng.randrange(1, 4) + rng.randrange(0, 3))  # n-k like
        elif c < 0.80:
            out.append(rng.randrange(1, MAXV_TOP + 1))
        elif c < 0.90:
            out.append(rng.randrange(2 ** 22, MAXV_TOP + 1))
        else:
            out.append(max(1, int(2 ** rng.uniform(0, 23.6))))
    return [min(max(1, v), MAXV_TOP) for v in out]


def carta_carry(s):
    """input selection only: does Carta's sum exceed 0x7FFFFFFF from pre-state s"""
    lo = MULT * (s & 0xFFFF)
    hi = MULT * (s >> 16)
    lo += (hi & 0x7FFF) << 16
    lo += hi >> 15
    return lo > 0x7FFFFFFF


def triples(tier, rng):
    """(pre-state, maxv) pairs; the driver stores the pre-state and calls rand(maxv)"""
    inv = pow(MULT, -1, P31)
    pre = lambda s1: (s1 * inv) % P31          # pre-state whose successor is s1
    want = 40000 if tier == "quick" else 200000
    pairs = []
    pool = maxv_pool(rng, 4000)
    # successors 1..16900: the sums just above the comparison `lo > 0x7FFFFFFF` (lo = 0x7FFFFFFF + s'), and
    # successors just below 2^31-1 (sums just below it)
    for s1 in list(range(1, 16901)) + list(range(P31 - 2000, P31)):
        pairs.append((pre(s1), pool[s1 % len(pool)] if s1 > 40 else [1, 2, 3, 2 ** 22, MAXV_TOP][s1 % 5]))
    # states near both ends of the range, as pre-state and as successor, against the frontier values
    edge = list(range(1, 33)) + list(range(P31 - 32, P31))
    for s in edge:
        for mv in (1, 2, 3, 2 ** 22 - 1, 2 ** 22, MAXV_TOP):
            pairs.append((s, mv))
            pairs.append((pre(s), mv))
    # successors around 2^53 / maxv for maxv above 2^22 (both sides of the exactness frontier)
    for mv in [2 ** 22, 2 ** 22 + 1, 2 ** 23, MAXV_TOP, MAXV_TOP - 1] + [rng.randrange(2 ** 22, MAXV_TOP + 1) for _ in range(60)]:
        c = 2 ** 53 // mv
        for d in (-2, -1, 0, 1, 2):
            s1 = c + d
            if 1 <= s1 < P31:
                pairs.append((pre(s1), mv))
    while len(pairs) < want + 1000:
        c = rng.random()
        s = rng.randrange(1, P31)
        if c < 0.5:
            pairs.append((s, rng.choice(pool)))
        elif c < 0.8:
            pairs.append((s, rng.choice([2 ** 22 - 1, 2 ** 22, MAXV_TOP, rng.randrange(2 ** 22, MAXV_TOP + 1)])))
        else:
            pairs.append((pre(rng.randrange(P31 - 10 ** 6, P31)), rng.choice(pool)))
    return pairs, sum(1 for (s, _) in pairs if carta_carry(s))


def near_integer(tier, rng):
    """(seed, maxv) with s'*maxv = +-r (mod 2^31-1), r = 1..6, for maxv around and above 2^22: the successor s' of
    the seed makes the exact quotient s'*maxv/(2^31-1) fall just below / just above an integer, where the doubly
    rounded binary64 quotient of the RFC's expression may land on the next integer (input selection only)"""
    nmv = 400 if tier == "quick" else 4200
    inv = pow(MULT, -1, P31)
    lowest = 4208185                       # below this maxv the double expression cannot leave the exact floor
    mvs = [12749994, MAXV_TOP, MAXV_TOP - 1, MAXV_TOP - 6, 2 ** 22, 2 ** 22 + 1, 2 ** 23 - 1, 2 ** 23, 2 ** 23 + 1,
           lowest - 1, lowest, lowest + 1, 2 ** 21, 3000000, 2 ** 22 - 1, 10 ** 7]
    while len(mvs) < nmv:
        c = rng.random()
        if c < 0.08:
            mvs.append(rng.randrange(2 ** 22, lowest))
        elif c < 0.11:
            mvs.append(rng.randrange(2 ** 20, 2 ** 22))
        elif c < 0.30:
            mvs.append(rng.randrange(2 ** 23, MAXV_TOP + 1))
        else:
            mvs.append(rng.randrange(lowest, MAXV_TOP + 1))
    out = []
    for mv in mvs:
        minv = pow(mv, -1, P31)
        for r in range(1, 7):
            for sign in (-1, 1):
                s1 = (sign * r * minv) % P31          # s1 * mv = sign*r (mod 2^31-1)
                out.append(((s1 * inv) % P31, mv))    # the state before s1
    return out


def srand_table(rng):
    vs = [0, 1, 2, 3, 16807, 12345, 2 ** 16, 2 ** 30, P31 - 2, P31 - 1, P31, P31 + 1, P31 + 2, 2 ** 32 - 2, 2 ** 32 - 1,
          2 ** 32, 2 ** 32 + 1, 2 ** 32 + 5, 2 ** 32 + P31 - 1, 2 ** 33 + 1, 2 ** 48 + 7, 2 ** 62, 2 ** 63 - 1, 2 ** 63,
          2 ** 63 + 1, 2 ** 63 + 12345, 2 ** 64 - 2 ** 31, 2 ** 64 - 2, 2 ** 64 - 1]
    vs += [rng.randrange(1, P31) for _ in range(40)]
    vs += [rng.randrange(P31, 2 ** 64) for _ in range(40)]
    vs += [(rng.randrange(1, 2 ** 32) << 32) | rng.randrange(1, P31) for _ in range(20)]   # valid low word, junk above
    lines = []
    for v in vs:
        sentinel = 12345 if v != 12345 else 54321
        lines += ["set %d" % sentinel, "srand %d" % v]
        if rng.random() < 0.3:
            lines.append("rand %d" % rng.choice([1, 2, 1000]))        # the sequence continues from the stored state
    return lines, len(vs)


def command_files(tier, rng, bdir):
    """returns list of (name, path, kind)"""
    files = []

    def put(name, lines, kind):
        p = os.path.join(bdir, name + ".cmd")
        with open(p, "w") as f:
            f.write("\n".join(lines) + "\n")
        files.append((name, p, kind))

    pool = maxv_pool(rng, 2000)
    put("steps", ["srand 1"] + ["rand %d" % rng.choice(pool) for _ in range(10002)], "steps")
    tab, nsr = srand_table(rng)
    put("srand", tab, "srand")
    pairs, ncarry = triples(tier, rng)
    nch = 8 if tier == "quick" else 16
    per = (len(pairs) + nch - 1) // nch
    for i in range(nch):
        lines = []
        for (s, mv) in pairs[i * per:(i + 1) * per]:
            lines += ["set %d" % s, "rand %d" % mv]
        if lines:
            put("triples%02d" % i, lines, "triples")
    near = near_integer(tier, rng)
    nch = 4 if tier == "quick" else 8
    per = (len(near) + nch - 1) // nch
    for i in range(nch):
        lines = []
        for (s, mv) in near[i * per:(i + 1) * per]:
            lines += ["srand %d" % s, "rand %d" % mv]       # seeded through the real of_rfc5170_srand
        if lines:
            put("near%02d" % i, lines, "near")
    if tier == "quick":
        put("walk", ["srand 1", "walk %d %d 1000" % (2 ** 28, 4096)], "walk")
    else:
        put("walk", ["srand 1", "walk %d %d 1000" % (P31 - 1, 65536)], "walk")
    info = {"triples": len(pairs), "carry_branch_states": ncarry, "srand_values": nsr, "near_integer_triples": len(near),
            "distinct_state_maxv_pairs": len(set(pairs) | set(near))}
    return files, info


# ------------------------------------------------------------------ running

def normalize_vmsg(out):
    """TLC wraps long tuples over several lines; put every VMSG tuple on one line"""
    def one(m):
        t = re.sub(r"\s+", " ", m.group(0))
        return "\n" + t.replace('<< "VMSG"', '<<"VMSG"').replace(" >>", ">>") + "\n"
    return re.sub(r'<<\s*"VMSG".*?>>', one, out, flags=re.S)


def run_one(args):
    name, cmdp, kind, drv, bdir = args
    trc = os.path.join(bdir, name + ".ndjson")
    t0 = time.time()
    vlib.run_driver(drv, cmdp, trc, timeout=900)
    t1 = time.time()
    nlines = sum(1 for _ in open(trc))
    r = vlib.run_tlc(SPECF, CFGF, os.path.join(bdir, "tlc_" + name), env={"TRACE": trc}, workers=1, timeout=1500)
    consumed = ("Postcondition" not in r.out or "is false" not in r.out) and "Model checking completed" in r.out
    if not consumed:
        raise vlib.Infra("trace %s not fully consumed by PrngTrace:\n%s" % (trc, r.out[-3000:]))
    msgs = apicheck.parse_vmsg(normalize_vmsg(r.out))
    for m in msgs:
        m["file"] = name
    return {"name": name, "cmd": cmdp, "trace": trc, "kind": kind, "lines": nlines, "states": r.states,
            "distinct": r.distinct, "msgs": msgs, "t_driver": t1 - t0, "t_tlc": time.time() - t1}


def build(bdir):
    vlib.stage_sources(bdir)
    slow = vlib.build_prog(bdir, "prng_driver_asan", DRIVER, [], asan=True, hooks=True)
    fast = vlib.build_prog(bdir, "prng_driver_fast", DRIVER, [], asan=False, hooks=False, opt="-O2")
    return slow, fast


def replay_slice(res, line):
    """commands that reproduce trace line `line` of a non-walk file: back to the last srand/set"""
    cmds = open(res["cmd"]).read().split("\n")
    if res["kind"] == "walk":
        return cmds
    i = line - 1
    j = i
    while j > 0 and not cmds[j].startswith(("set", "srand")):
        j -= 1
    if res["kind"] == "srand" and j > 0 and cmds[j].startswith("srand") and cmds[j - 1].startswith("set"):
        j -= 1
    return cmds[j:i + 1]


def judge(pid, results, verdict, given=None):
    infra = [m for r in results for m in r["msgs"] if "INFRA" in m["tags"]]
    if infra:
        raise vlib.Infra("driver/protocol/spec self-check problem reported by PrngTrace: %r" % infra[:3])
    saved = {}
    for r in results:
        recs = None
        for m in r["msgs"]:
            if pid not in m["tags"]:
                continue
            key = m["check"] + ("/" + m["ctx"] if m["ctx"] else "")
            if recs is None:
                recs = open(r["trace"]).read().split("\n")
            if key not in saved and given:
                saved[key] = given
            if key not in saved:
                d = os.path.join(vlib.VERIF, "replays", pid)
                os.makedirs(d, exist_ok=True)
                fn = os.path.join(d, re.sub(r"[^A-Za-z0-9_.-]", "_", key.replace(">=", "ge").replace("<", "lt")) + ".cmd")
                with open(fn, "w") as f:
                    f.write("# %s: %s line %d\n" % (key, r["name"], m["line"]))
                    f.write("\n".join(x for x in replay_slice(r, m["line"]) if x) + "\n")
                saved[key] = fn
            verdict.report(key, "check=%s file=%s line=%d record=%s" % (m["check"], r["name"], m["line"],
                                                                        recs[m["line"] - 1]), saved[key])


def run(pid, tier):
    t0 = time.time()
    rng = random.Random(vlib.seed())
    bdir = vlib.scratch(pid)
    verdict = vlib.Verdict(pid)
    try:
        slow, fast = build(bdir)
        files, info = command_files(tier, rng, bdir)
        jobs = [(n, p, k, fast if k == "walk" else slow, bdir) for (n, p, k) in files]
        jobs.sort(key=lambda j: j[2] != "walk")          # longest first
        with cf.ThreadPoolExecutor(vlib.NCPU) as ex:
            results = list(ex.map(run_one, jobs))
        judge(pid, results, verdict)
        rc = verdict.finish()
        samples = []
        for r in results:
            with open(r["trace"]) as f:
                head = [next(f, "").strip() for _ in range(3)]
            samples += ["%s: %s" % (r["name"], x) for x in head[1:3] if x]
        walk = [r for r in results if r["kind"] == "walk"][0]
        last = json.loads(open(walk["trace"]).read().strip().split("\n")[-1])
        by_kind = {}
        for r in results:
            by_kind[r["kind"]] = by_kind.get(r["kind"], 0) + r["lines"]
        nrec = sum(r["lines"] for r in results)
        cov = {
            "states": sum(r["distinct"] for r in results),
            "transitions": sum(r["states"] for r in results),
            "traces_validated_against_impl": nrec,
            "samples": samples[:8],
            "evaluations": nrec,
            "distinct_nontrivial": info["distinct_state_maxv_pairs"] + 10002 + (walk["lines"] - 1),
            "rule": "one evaluation = one recorded observation of the real of_rand.c checked by TLC (a rand call from a "
                    "chosen state with a chosen maxv, one of the first 10002 steps after seed 1, one checkpoint window of "
                    "the cycle walk, one srand call); distinct = distinct (state, maxv) pairs + steps + windows",
            "records_by_kind": by_kind,
            "triples": info["triples"],
            "triples_on_subtract_branch": info["carry_branch_states"],
            "near_integer_triples": info["near_integer_triples"],
            "srand_values": info["srand_values"],
            "walk_steps": last["cnt"],
            "walk_window": 4096 if tier == "quick" else 65536,
            "full_cycle_walked": last["cnt"] == P31 - 1,
            "exhaustive": False,
            "t_walk_driver_s": round(walk["t_driver"], 1),
        }
        vlib.write_evidence(pid, tier, "model_checking", cov, time.time() - t0, len(verdict.violations), [
            "ParkMiller.tla states s' = 16807*s mod (2^31-1) (Schrage) and floor(s'*maxv/(2^31-1)) (bit-serial); its closed "
            "form StateAfter is checked by TLC against the step relation on the first 10002 states and at [Park88]'s "
            "10000th value; 16807 is checked to be a primitive root (period 2^31-2)",
            "cycle walk: states are compared every window (2^16 thorough, 2^12 quick) with 16807^window * s; because each "
            "correct step is a bijection a single wrong transition changes all later checkpoints, two errors cancelling "
            "inside one window would go unseen",
            "the RFC's expression (double)s'*(double)maxv/(double)(2^31-1) is modelled in TLA+ (PrngTrace!RefScale over "
            "Nat64) as IEEE-754 binary64, round to nearest even: A = RN53(s'*maxv), then RN53(A/(2^31-1)) (2^31-1 is exactly "
            "representable), then truncation; every recorded result must equal it, for all products; assumed of the "
            "platform: x86-64/SSE2 double arithmetic, i.e. the C expression is exactly these two correctly rounded "
            "operations (no x87 extended precision, no contraction of mul+div)",
            "near-integer triples: s'*maxv = +-r mod (2^31-1), r = 1..6, chosen per maxv in [2^20, 255*50000]; the divergence "
            "between the double expression and the exact floor has density ~5e-11, so random triples alone do not reach it",
            "steps/triples/srand observed on a -DOF_VERIF ASan build, the cycle walk on a plain -O2 build of the same file",
        ])
        return rc
    finally:
        vlib.cleanup(bdir)


def replay(pid, path):
    bdir = vlib.scratch(pid + "_replay")
    try:
        slow, fast = build(bdir)
        cmdp = os.path.join(bdir, "replay.cmd")
        shutil.copy(path, cmdp)
        kind = "walk" if any(x.startswith("walk") for x in open(cmdp)) else "steps"
        res = run_one(("replay", cmdp, kind, fast if kind == "walk" else slow, bdir))
        verdict = vlib.Verdict(pid)
        judge(pid, [res], verdict, given=path)
        return verdict.finish()
    finally:
        vlib.cleanup(bdir)
