"""C13: the symbol kernels are exact for every length, operand count and alignment.

kernel_driver (built from the working tree with ASan; static kernels reached by
translation-unit inclusion) runs the case space of spec/Kernels.tla and logs the bytes it
observed; TLC (spec/KernelTrace.tla) recomputes every expected byte from the byte-wise
definitions, checks guard bytes and memory faults, and checks that each part of the case
space was exercised completely.  The case space is split into (kernel, size % R) parts that
are run side by side."""
import concurrent.futures as cf
import json
import os
import re
import subprocess
import time

import vlib
from tables import vmsgs

SPEC = os.path.join(vlib.SPEC, "KernelTrace.tla")
CFG = os.path.join(vlib.SPEC, "KernelTrace.cfg")
KERNELS = ["xor1", "xfrom", "xto", "rsmul", "m8mul", "m4mul", "m4cmp"]
# number of parts per kernel (sizes are dealt round-robin: part = size % R)
PARTS = {
    "quick": {0: 1, 1: 5, 2: 6, 3: 1, 4: 1, 5: 1, 6: 1},
    "thorough": {0: 3, 1: 27, 2: 27, 3: 27, 4: 27, 5: 9, 6: 9},
}


def build(bdir):
    """one driver for all kernels; if it does not build (a routine no longer exists under its name, e.g. after a
    re-implementation that dropped it), one driver per kernel: the kernels that still build are checked, the others
    are reported as absent (nothing to decide for a routine that is not there)"""
    vlib.stage_sources(bdir)
    src = os.path.join(vlib.HARNESS, "kernel_driver.c")
    try:
        prog = vlib.build_prog(bdir, "kernel_driver", src, [])
        return {kid: prog for kid in range(len(KERNELS))}, []
    except vlib.Infra:
        progs, absent = {}, []
        for kid in range(len(KERNELS)):
            try:
                progs[kid] = vlib.build_prog(bdir, "kernel_driver_%d" % kid, src, [], extra=("-DKD_KID=%d" % kid,))
            except vlib.Infra as e:
                absent.append(KERNELS[kid])
                vlib.log("note: kernel %s does not build in this tree (absent or different signature): not checked" % KERNELS[kid])
        if not progs:
            raise
        return progs, absent


def run_driver(prog, tierc, kid, parts, part, trace, only=None):
    e = dict(os.environ)
    e.update(vlib.ASAN_ENV)
    e["ASAN_OPTIONS"] += ":symbolize=0"      # the report itself is not used, only the fact that the run died
    if only:
        e["KD_ONLY"] = only
    try:
        p = subprocess.run([prog, tierc, str(kid), str(parts), str(part), trace], env=e, capture_output=True, text=True,
                           timeout=3000)
    except subprocess.TimeoutExpired:
        raise vlib.Infra("kernel_driver timed out (kid %d part %d)" % (kid, part))
    if p.returncode != 0:
        raise vlib.Infra("kernel_driver failed (%d) kid %d part %d: %s" % (p.returncode, kid, part, p.stderr[-2000:]))


def run_tlc(trace, mdir, mode, tierc, kid, parts, part):
    r = vlib.run_tlc(SPEC, CFG, mdir, workers=1, timeout=3000, xmx="3g",
                     env={"TRACE": trace, "MODE": mode, "TIER": tierc, "KID": kid, "PARTS": parts, "PART": part})
    consumed = "Model checking completed" in r.out and not ("Postcondition" in r.out and "is false" in r.out)
    if not consumed:
        raise vlib.Infra("trace %s not fully consumed by KernelTrace:\n%s" % (trace, r.out[-3000:]))
    msgs = vmsgs(r.out)
    infra = [m for m in msgs if "INFRA" in m["tags"]]
    if infra:
        raise vlib.Infra("KernelTrace reports a driver/protocol problem (no verdict): %r" % infra[:3])
    m = re.search(r'<<"COVER", "complete", (\d+), (\d+), (\d+)>>', r.out)
    if not m:
        raise vlib.Infra("KernelTrace did not reach the completeness check of %s:\n%s" % (trace, r.out[-2000:]))
    return r, msgs, tuple(int(x) for x in m.groups())


def line_of(path, lineno):
    with open(path) as f:
        for i, ln in enumerate(f, 1):
            if i == lineno:
                return ln
    return ""


def sample_of(path):
    """one actual run of the first group that has a non-empty symbol"""
    with open(path) as f:
        for ln in f:
            g = json.loads(ln)
            if g.get("e") == "G" and g["sz"] >= 3 and g["n"] >= 1:
                run = g["runs"][min(3, len(g["runs"]) - 1)]
                return {"kernel": KERNELS[g["kid"]], "size": g["sz"], "n": g["n"], "pattern": g["p"], "c": g["c"],
                        "offsets": run["a"], "variant": run["v"], "fault": run["f"],
                        "logged": [{"buf": b["i"], "left_guard": b["l"][:4], "content": b["c"][:8], "right_guard": b["r"][:4]}
                                   for b in run["b"][:2]]}
    return None


def one_job(args):
    pid, prog, bdir, tierc, kid, parts, part = args
    tag = "k%d_%02d" % (kid, part)
    trace = os.path.join(bdir, tag + ".ndjson")
    t0 = time.time()
    run_driver(prog, tierc, kid, parts, part, trace)
    t1 = time.time()
    size = os.path.getsize(trace)
    r, msgs, (groups, runs, nontriv) = run_tlc(trace, os.path.join(bdir, "tlc_" + tag), "full", tierc, kid, parts, part)
    t2 = time.time()
    found = []
    for m in msgs:
        if pid not in m["tags"]:
            continue
        key = "%s/%s" % (m["check"], KERNELS[kid])
        d = os.path.join(vlib.VERIF, "replays", pid)
        os.makedirs(d, exist_ok=True)
        fn = os.path.join(d, re.sub(r"[^A-Za-z0-9_.-]", "_", key) + ".ndjson")
        found.append((key, "check=%s %s" % (m["check"], m["ctx"]), fn, line_of(trace, m["line"])))
    sample = sample_of(trace) if part == 0 else None
    os.remove(trace)
    return {"kid": kid, "part": part, "states": r.states, "distinct": r.distinct, "groups": groups, "runs": runs,
            "nontrivial": nontriv, "bytes": size, "found": found, "sample": sample, "t_driver": t1 - t0, "t_tlc": t2 - t1}


def run(pid, tier):
    t0 = time.time()
    tierc = "q" if tier == "quick" else "t"
    bdir = vlib.scratch(pid)
    verdict = vlib.Verdict(pid)
    try:
        progs, absent = build(bdir)
        jobs = [(pid, progs[kid], bdir, tierc, kid, parts, part) for kid, parts in sorted(PARTS[tier].items()) if kid in progs
                for part in range(parts)]
        # biggest traces first (multi-operand kernels), so that the pool drains evenly
        jobs.sort(key=lambda j: (j[4] not in (1, 2), j[4] not in (3, 4)))
        with cf.ThreadPoolExecutor(vlib.NCPU) as ex:
            results = list(ex.map(one_job, jobs))
        saved = set()
        for res in results:
            for key, what, fn, line in res["found"]:
                if key not in saved:
                    saved.add(key)
                    with open(fn, "w") as f:
                        f.write(line if line.endswith("\n") else line + "\n")
                        f.write('{"e":"End"}\n')
                verdict.report(key, what, fn)
        rc = verdict.finish()
        per_kernel = {}
        for res in results:
            k = per_kernel.setdefault(KERNELS[res["kid"]], {"groups": 0, "runs": 0})
            k["groups"] += res["groups"]
            k["runs"] += res["runs"]
        cov = {
            "states": sum(r["distinct"] for r in results),
            "transitions": sum(r["states"] for r in results),
            "traces_validated_against_impl": sum(r["runs"] for r in results),
            "samples": [r["sample"] for r in results if r["sample"]][:4],
            "evaluations": sum(r["runs"] for r in results),
            "distinct_nontrivial": sum(r["nontrivial"] for r in results),
            "rule": "one evaluation = one kernel call (kernel, size, operand count, content pattern, constant, offset of "
                    "every buffer, variant exact-heap/guarded), all distinct as tuples; non-trivial = size > 0, at least "
                    "one operand and, for multiply-accumulate, constant # 0",
            "groups": sum(r["groups"] for r in results),
            "per_kernel": per_kernel,
            "kernels_absent_in_this_tree": absent,
            "trace_bytes": sum(r["bytes"] for r in results),
            "tlc_processes": len(results),
            "case_space": "Kernels.tla GroupSet/AlSeq, tier %s: sizes 0..%d, operand counts 0..%d" % (
                tierc, 40 if tierc == "q" else 80, 9 if tierc == "q" else 20),
            "exhaustive": True,
        }
        vlib.write_evidence(pid, tier, "model_checking", cov, time.time() - t0, len(verdict.violations),
                            ["exhaustive over the stated case space (sizes, counts, offsets, constants of Kernels.tla), "
                             "with two spec-defined content patterns, not over all contents: the kernels are table look-ups "
                             "and XORs applied position by position, C14 covers every table entry",
                             "reads before the first byte of a buffer placed at offset 1..7 are not detected (ASan granule); "
                             "writes there are (guard bytes)",
                             "source buffers are logged and compared only in the guarded variant with at most two sources",
                             "Mul = MulDef for all pairs is checked by the C14 run (TableTrace.tla)"])
        vlib.log("[%s] %d parts, %d runs, %.0f MB of traces, slowest part %.1fs" % (
            pid, len(results), cov["evaluations"], cov["trace_bytes"] / 1e6, max(r["t_driver"] + r["t_tlc"] for r in results)))
        for r in sorted(results, key=lambda r: -(r["t_driver"] + r["t_tlc"]))[:4]:
            vlib.log("[%s]   slow part: %s part %d: driver %.1fs, TLC %.1fs, %d runs, %.0f MB" % (
                pid, KERNELS[r["kid"]], r["part"], r["t_driver"], r["t_tlc"], r["runs"], r["bytes"] / 1e6))
        return rc
    finally:
        vlib.cleanup(bdir)


def replay(pid, path):
    """re-run the groups recorded in a replay file on the current working tree"""
    path = os.path.abspath(path)
    bdir = vlib.scratch(pid + "_replay")
    verdict = vlib.Verdict(pid)
    try:
        prog = build(bdir)
        groups = [json.loads(x) for x in open(path) if x.strip()]
        for i, g in enumerate(x for x in groups if x.get("e") == "G"):
            trace = os.path.join(bdir, "replay_%d.ndjson" % i)
            run_driver(prog, g["tier"], g["kid"], 1, 0, trace, only="%d,%d,%d,%d" % (g["sz"], g["n"], g["p"], g["c"]))
            r, msgs, _ = run_tlc(trace, os.path.join(bdir, "tlc_%d" % i), "rows", g["tier"], g["kid"], 1, 0)
            for m in msgs:
                if pid in m["tags"]:
                    verdict.report("%s/%s" % (m["check"], KERNELS[g["kid"]]), "check=%s %s" % (m["check"], m["ctx"]), path)
        return verdict.finish()
    finally:
        vlib.cleanup(bdir)
