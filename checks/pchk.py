"""C05 (parity-check matrix = RFC 5170, history independent) and C15 (last symbol null claim)."""
import os
import random
import time

import apicheck
import gen
import vlib

P = gen.P


def grid(tier, rng):
    ks = [1, 2, 3, 4, 5, 6, 7, 8, 9, 10, 12, 16, 20, 33, 64, 100] if tier == "quick" else \
        list(range(1, 41)) + [64, 100, 255, 500, 1000]
    seeds = [1, 2, 12345, 2147483646, rng.randrange(1, 2 ** 31 - 1)]
    if tier != "quick":
        seeds += [16807, 2147483645, 65536, 127773] + [rng.randrange(1, 2 ** 31 - 1) for _ in range(3)]
    pts = []
    for k in ks:
        rs = sorted({max(3, (k + 8) // 9), max(3, k // 4), max(3, k // 2), max(3, k), 2 * k + 3, 4 * k + 1})
        for r in rs:
            if k + r > 3000:
                continue
            n1s = [n1 for n1 in (3, 4, 5, 6, 7, 10) if n1 <= r]
            if tier == "quick" or k > 100:
                n1s = n1s[:2] + n1s[-1:] if k <= 33 else n1s[:2]
            for n1 in n1s:
                nseed = len(seeds) if k <= (10 if tier == "quick" else 40) else 2
                for seed in rng.sample(seeds, nseed):
                    pts.append((k, r, n1, seed))
    # high code rates (few repair rows): the list of homogeneous choices runs dry before the last column,
    # so the RFC's "no choice left, choose one randomly" branch is taken -- needs many seeds per point
    nseeds = 120 if tier == "quick" else 1200
    for (k, r, n1) in ((10, 4, 3), (12, 4, 3), (8, 3, 3), (20, 5, 3), (16, 6, 4), (30, 7, 5), (25, 6, 5), (40, 8, 5), (6, 3, 3), (14, 5, 4)):
        for _ in range(nseeds):
            pts.append((k, r, n1, rng.randrange(1, 2 ** 31 - 1)))
    # the same counts at the width of an 8-bit type (full re-construction in TLC): 2(n-k) - k*N1 = 256 +- 2, n-k = 255..257
    for k in (1, 2, 3, 4):
        for n1 in (3, 4, 6):
            for r in sorted({(256 + k * n1) // 2 - 1, (256 + k * n1) // 2, (256 + k * n1) // 2 + 1} | ({255, 256, 257} if tier != "quick" else set())):
                pts.append((k, r, n1, rng.randrange(1, 2 ** 31 - 1)))
    return pts


def width_points(tier, rng):
    """parameter points at which a count of the matrix construction meets the width of an integer type: with few
    source columns the completion step adds 2(n-k) - k*N1 entries (every row is brought to two source entries), the
    number of rows itself crosses 2^15 / 2^16 / 2^8.  The RFC construction is not re-evaluated in TLC there (minutes
    per session): PchkTrace decides the claim on the observed equations of the session (claimed => they sum to
    {n-1}; both roles agree)."""
    pts = []
    for W in (1 << 16, 1 << 15):
        for k in (1, 2, 3, 4, 5):
            for n1 in (4, 6):
                base = (W + k * n1) // 2
                for d in (-1, 0, 1):
                    r = base + d
                    if r < n1 or k + r > 49000:
                        continue
                    nseed = 1 if tier == "quick" else 4
                    for _ in range(nseed):
                        pts.append((k, r, n1, rng.choice([1, 2, rng.randrange(1, 2 ** 31 - 1)])))
    for r in (32767, 32768, 32769, 16384, 40000, 48990):
        for k in ((1, 3) if tier == "quick" else (1, 2, 3, 4, 7)):
            pts.append((k, r, 4, rng.randrange(1, 2 ** 31 - 1)))
    # large codes at which the claim *is* made (dense enough that the completion step adds nothing, even N1)
    for (k, r) in ((20000, 10000), (5000, 4000), (30000, 15000), (3500, 600)) if tier == "quick" else \
                  ((20000, 10000), (5000, 4000), (30000, 15000), (3500, 600), (12000, 5000), (40000, 9000), (8000, 8000), (2500, 700), (45000, 4000)):
        for n1 in (4, 6):
            pts.append((k, r, n1, rng.randrange(1, 2 ** 31 - 1)))
    if tier != "quick":
        for _ in range(60):
            pts.append((rng.randint(1, 12), rng.randint(3200, 48000), rng.choice([4, 4, 6, 8, 3, 5]), rng.randrange(1, 2 ** 31 - 1)))
    return pts


def behaviours(pts, rng):
    """each execution: several sessions of both roles, created in varying orders and
    interleaved with sessions of other codecs / parameters (history independence)"""
    execs = []
    i = 0
    while i < len(pts):
        grp = pts[i:i + 3]
        i += 3
        lines = []
        sid = 0
        order = []
        for (k, r, n1, seed) in grp:
            order.append((sid, "enc", k, r, n1, seed))
            order.append((sid + 1, "dec", k, r, n1, seed))
            sid += 2
        rng.shuffle(order)
        extra = rng.choice([None, (1, 5, 3), (2, 4, 4), (3, 7, 5)])
        for (s, role, k, r, n1, seed) in order:
            lines.append("create %d 3 %s" % (s, role))
            if extra and rng.random() < 0.3:
                c, ek, er = extra
                lines.append("create 15 %d enc" % c)
                if c == 3:
                    lines.append("params 15 %d %d 4 0 3 %d rnd 0" % (ek, er, rng.randrange(1, 1000)))
                else:
                    lines.append("params 15 %d %d 8 %d 0 0 rnd 0" % (ek, er, 8 if c == 2 else 0))
                lines.append("release 15")
            if role == "enc" and rng.random() < 0.15:
                # an encoder instance that was configured for another block size before (an application re-using its
                # encoder for a shorter last block): same N1 and seed, or another seed -- the equations of the session
                # are those of its current configuration
                k2 = max(1, k + rng.choice([-4, -3, -1, 1, 2, 5]))
                lines.append("params %d %d %d %d 0 %d %d rnd 0" % (s, k2, r, max(1, rng.choice([1, 4, 16])), n1,
                                                                   seed if rng.random() < 0.7 else rng.randrange(1, 2 ** 31 - 1)))
            lines.append("params %d %d %d %d 0 %d %d rnd 0" % (s, k, r, max(1, rng.choice([1, 4, 16])), n1, seed))
        for (s, role, k, r, n1, seed) in order:
            lines.append("release %d" % s)
        execs.append(lines)
    return execs


def run(pid, tier):
    t0 = time.time()
    rng = random.Random(vlib.seed())
    bdir = vlib.scratch(pid)
    verdict = vlib.Verdict(pid)
    try:
        # 1. model checking of the definition itself (structure lemmas incl. LastNull)
        cfg = os.path.join(vlib.SPEC, "PchkModel.cfg" if tier == "quick" else "PchkModel_thorough.cfg")
        mc = vlib.run_tlc(os.path.join(vlib.SPEC, "PchkModel.tla"), cfg, os.path.join(bdir, "mc"), workers=8, xmx="4g",
                          timeout=2400)
        if mc.violated or "Model checking completed. No error" not in mc.out:
            raise vlib.Infra("PchkModel: the definition itself violates a lemma:\n" + mc.out[-3000:])
        # 2. conformance: matrices of real sessions against the definition
        drv = vlib.build_driver(bdir)
        pts = grid(tier, rng)
        execs = behaviours(pts, rng)
        lines = gen.join(execs).split("\n")
        api = apicheck.run_api(bdir, drv, lines, spec="PchkTrace")
        mine = apicheck.judge(pid, api, verdict)
        wapi = None
        if pid in ("C15", "C05"):
            # 2b. counts of the construction at the widths of the integer types (claim decided on the observed equations)
            wpts = width_points(tier, rng)
            wex = []
            for (k, r, n1, seed) in wpts:
                order = [(0, "enc"), (1, "dec")]
                rng.shuffle(order)
                wex.append(["create %d 3 %s" % (s, role) for (s, role) in order] +
                           ["params %d %d %d 1 0 %d %d rnd 0" % (s, k, r, n1, seed) for (s, role) in order] +
                           ["release %d" % s for (s, role) in order])
            wapi = apicheck.run_api(bdir, drv, gen.join(wex).split("\n"), spec="PchkTrace")
            apicheck.judge(pid, wapi, verdict)
        # 3. draw-level binding at sizes the full construction cannot be re-evaluated for: every PRNG call,
        #    drawn index and range argument of a few very large constructions, validated event by event
        big = [(3000, 1500, 3), (8000, 400, 5), (12000, 5000, 4)] if tier == "quick" else \
              [(3000, 1500, 3), (8000, 400, 5), (20000, 10000, 3), (40000, 10000, 3), (49000, 1000, 7), (15000, 30000, 4)]
        bex = []
        for (k, r, n1) in big:
            bex.append(["create 0 3 %s" % rng.choice(["enc", "dec"]),
                        "rawparams 0 %d %d 1 0 %d %d" % (k, r, n1, rng.randrange(1, 2 ** 31 - 1)), "release 0"])
        dapi = apicheck.run_api(os.path.join(bdir), drv, gen.join(bex).split("\n"), nproc=len(bex), spec="PchkDrawTrace",
                                drv_env={"OF_DRIVER_PCHKEVENTS": "1"}) if pid == "C05" else None
        if dapi:
            apicheck.judge(pid, dapi, verdict)     # only MemFaults can come out of this layer-B run
            api["drift"] += dapi["drift"]
        stable = None
        if pid == "C15":
            # 4. the answer is a property of the configured code: asked again after every submission of a decoder
            #    session and after every built repair symbol of an encoder session it must not change (ApiTrace)
            sx = []
            for _ in range(150 if tier == "quick" else 3000):
                k = rng.randint(1, 10); r = rng.randint(3, 14); n1 = rng.choice([4, 4, 6, 3, 5])
                n1 = min(n1, r)
                p = P(3, k, r, N1=n1, seed=rng.choice([1, 2, 3, rng.randint(1, 2 ** 31 - 2)]))
                sub = rng.sample(range(p.n), rng.randint(1, p.n))
                sx.append(gen.decode_exec(p, sub, api=rng.choice(["recv", "recv", "mixed"]), finish=rng.choice([True, False]), probe="each",
                                          both=rng.random() < 0.2))
                if rng.random() < 0.4:
                    sx.append(gen.encode_exec(p, both=rng.random() < 0.2))
            stable = apicheck.run_api(bdir, drv, gen.join(sx).split("\n"), spec="ApiTrace")
            apicheck.judge(pid, stable, verdict)
        rc = verdict.finish()
        nlast = 0
        cov = {
            "states": mc.distinct + api["distinct"] + (dapi["distinct"] if dapi else 0),
            "transitions": mc.states + api["states"] + (dapi["states"] if dapi else 0),
            "traces_validated_against_impl": api["execs"],
            "samples": apicheck.sample_execs(lines, 2),
            "evaluations": 2 * len(pts),
            "distinct_nontrivial": len(set(pts)),
            "rule": "parameter points (k, n-k, N1, seed) distinct as tuples; each configured as encoder and decoder "
                    "session in shuffled order, interleaved with other sessions; matrix compared entry for entry "
                    "with the TLA+ transcription of RFC 5170",
            "model_points_exhaustive": mc.distinct,
            "trace_lines": api["lines"],
            "drift_lines": len(api["drift"]),
            "max_k": max(p[0] for p in pts),
            "draw_level_points": big if dapi else [], "draw_level_events_validated": dapi["lines"] if dapi else 0,
            "uneven_placements_validated": sum(int(x.split(", ")[0]) for r in api["results"] for x in r.get("pstat", [])),
            "completion_entries_validated": sum(int(x.split(", ")[1]) for r in api["results"] for x in r.get("pstat", [])),
            "claim_asked_again_during_sessions": stable["execs"] if stable else 0,
            "width_boundary_sessions_validated": sum(int(x.split(", ")[2]) for r in wapi["results"] for x in r.get("pstat", [])) if wapi else 0,
            "width_boundary_sessions_claiming_null": sum(int(x.split(", ")[3]) for r in wapi["results"] for x in r.get("pstat", [])) if wapi else 0,
            "width_boundary_max_rows": max(p[1] for p in wpts) if wapi else 0,
            "exhaustive": False,
        }
        vlib.write_evidence(pid, tier, "model_checking", cov, time.time() - t0, len(verdict.violations),
                            ["PchkRfc5170.tla is a faithful transcription of RFC 5170 section 5/6 pseudo-code",
                             "matrix observed through the OF_VERIF pchk_done hook at the end of the construction"])
        for d in api["drift"][:5]:
            print("DRIFT module=PchkRfc5170 %s" % d)
        return rc
    finally:
        vlib.cleanup(bdir)


def replay(pid, path):
    bdir = vlib.scratch(pid + "_replay")
    try:
        drv = vlib.build_driver(bdir)
        lines = open(path).read().split("\n")
        api = apicheck.run_api(bdir, drv, lines, nproc=1, spec="PchkTrace")
        verdict = vlib.Verdict(pid)
        apicheck.judge(pid, api, verdict)
        return verdict.finish()
    finally:
        vlib.cleanup(bdir)
