"""Decoder-side properties decided on the API-level trace specification (ApiTrace.tla):
C01 soundness, C02 RS MDS, C03 ML completeness, C04 IT = peeling closure, C07 memory/buffer
contract, C08 release ledger, C10 statuses and queries, C11 callback contract.
Every property also has a design-level TLC model-checking run (LdpcIt / RsSession / ...)."""
import os
import random
import time

import apicheck
import gen
import vlib

P = gen.P


# ------------------------------------------------------------------ workloads

def api_variants(p, o, api, fin, cb, probe, both=False):
    """"mixed" = every symbol but one goes through of_set_available_symbols, the last one arrives afterwards: once the
    highest and once the lowest ESI of the set (the table may then already hold k symbols or more)"""
    if api != "mixed":
        return [gen.decode_exec(p, o, api=api, finish=fin, cb=cb, probe=probe, both=both)]
    if not o:
        return []
    srt = sorted(o)
    return [gen.decode_exec(p, oo, api="mixed", finish=fin, cb=cb, probe=probe, mixed_cut=len(oo) - 1, both=both)
            for oo in (srt, list(reversed(srt)))]


def ldpc_exhaustive(pts, rng, apis=("recv",), finish=(True,), cbs=(None,), orders=1, probe="each", maxsub=None):
    execs = []
    idx = 0
    for p in pts:
        subs = list(gen.all_subsets(p.n))
        if maxsub and len(subs) > maxsub:
            subs = rng.sample(subs, maxsub)
        for sub in subs:
            ovs = gen.order_variants(sub, rng, p.k)[:orders]
            for o in ovs:
                for api in apis:
                    for fin in finish:
                        for cb in cbs:
                            # every fourth execution on an OF_ENCODER_AND_DECODER instance (a receiver of that type must
                            # behave like a plain decoder on every received set, not only on the random ones)
                            idx += 1
                            execs += api_variants(p, o, api, fin, cb, probe, both=(idx % 4 == 3))
    return execs


def rs_exhaustive(pts, rng, apis=("recv",), cbs=(None,), orders=1, probe="each", maxsub=None, finish=(True,)):
    execs = []
    idx = 0
    for p in pts:
        subs = list(gen.all_subsets(p.n))
        if maxsub and len(subs) > maxsub:
            subs = rng.sample(subs, maxsub)
        for sub in subs:
            for o in gen.order_variants(sub, rng, p.k)[:orders]:
                for api in apis:
                    for cb in cbs:
                        for fin in finish:
                            idx += 1
                            execs += api_variants(p, o, api, fin, cb, probe, both=(idx % 4 == 3))
    return execs


LENGTHS = list(range(1, 81)) + [96, 100, 127, 128, 129, 255, 256, 257, 1000, 1316, 1400, 1500]
# lengths around the sizes at which code that blocks, slices or narrows a length changes regime (pages, 16-bit counters)
BIG_LENGTHS = [2048, 4095, 4096, 4097, 8192, 12288, 16384, 32768, 65535, 65536, 65537, 65560, 70000, 131072]


# C11: source callback alone and together with a repair callback (which the Reed-Solomon codecs never call)
CB11 = ("buf", "null", "mix", "buf rep", "mix rep", "slab")


def both_role(rng, p):
    """15 % of the random decoder executions use an OF_ENCODER_AND_DECODER instance; half of those first build
    some repair symbols of the block on it (a sender that also checks its own block)"""
    if rng.random() >= 0.15:
        return {}
    return {"both": True, "builds_before": rng.choice([0, 0, 1, 2, p.r]), "build_slot": rng.choice(["buf", "buf", "null"])}


def cb_timing(rng, cb):
    """a tenth of the executions with a callback register it late, another tenth replace it by another one"""
    if not cb:
        return {}
    x = rng.random()
    if x < 0.1:
        return {"cb_late": True}
    if x < 0.2:
        return {"cb_replace": rng.choice([m for m in ("buf", "null", "mix") if m != cb.split(" ")[0]])}
    return {}


def mixed_cut(rng, api, sub):
    """how many of the symbols go through of_set_available_symbols in a mixed history: often all but one or two (the
    table may then already hold k symbols or more), else any number"""
    if api != "mixed":
        return {}
    n = len(sub)
    return {"mixed_cut": rng.choice([n - 1, n - 1, n - 2, n // 2, rng.randint(0, n)])}


def pick_len(rng, n):
    if n <= 48 and rng.random() < 0.08:
        return rng.choice(BIG_LENGTHS)
    return rng.choice(LENGTHS)



def random_ldpc(rng, count, kmax, cbs=(None,), apis=("recv", "setavail"), payloads=("id", "rnd"), dup=True,
                finish_choices=(True, True, False), probe_choices=("end", "end", "each")):
    execs = []
    for _ in range(count):
        if rng.random() < 0.25:      # tiny k / low code rate: completion entries, N1 close to n-k
            k = rng.randint(1, 5)
            r = rng.randint(3, 16)
        else:
            k = rng.randint(1, kmax)
            r = rng.randint(3, max(3, min(2 * k + 3, kmax)))
        n1 = rng.randint(3, min(r, 8))
        seed = rng.randint(1, 2 ** 31 - 2)
        payload = rng.choice(payloads)
        extra = rng.choice([0, 0, 1, 3, 8])
        length = gen.need_len(3, k, 0) + extra if payload == "id" else pick_len(rng, k + r)
        p = P(3, k, r, N1=n1, seed=seed, length=length, payload=payload, align=gen.pick_align(rng))
        n = p.n
        # loss rate around the decoding threshold so that both outcomes occur
        keep = rng.uniform(max(0.3, k / n - 0.25), min(1.0, k / n + 0.35))
        sub = [e for e in range(n) if rng.random() < keep]
        rng.shuffle(sub)
        if dup and sub and rng.random() < 0.4:
            for _ in range(rng.randint(1, 3)):
                sub.insert(rng.randrange(len(sub) + 1), rng.choice(sub))
        api = rng.choice(apis)
        if api == "setavail" and rng.random() < 0.25:
            api = "mixed"
        if api == "setavail":
            sub = sorted(set(sub))
        fin = rng.choice(finish_choices)
        cbm = rng.choice(cbs)
        execs.append(gen.decode_exec(p, sub, api=api, finish=fin, cb=cbm,
                                     probe=rng.choice(probe_choices) if n <= 40 else "end",
                                     refinish=fin and rng.random() < 0.3, **both_role(rng, p), **cb_timing(rng, cbm), **mixed_cut(rng, api, sub)))
    return execs


def threshold_ldpc(rng, count, apis=("recv", "setavail"), finish=True, cbs=(None,), mid=False):
    """many small codes (fresh k, n-k, N1, seed each time) x received sets whose size is at the decoding threshold
    (k-1 .. k+3): the regime in which peeling gets somewhere, stalls, and the ML step sees a partly solved system.
    Executions are tiny, so a quick run affords hundreds of codes."""
    execs = []
    for _ in range(count):
        k = rng.randint(2, 14)
        r = rng.randint(3, 14)
        if mid:     # residual systems of 32, 64 ... unknowns (machine-word boundaries of the dense solver) need n-k >= 32
            k = rng.randint(20, 70)
            r = rng.randint(32, 72)
            if rng.random() < 0.3:      # k and n-k themselves at the word sizes
                k = rng.choice([31, 32, 33, 63, 64, 65])
                r = rng.choice([32, 33, 63, 64, 65])
        n1 = rng.randint(3, min(r, 5))
        seed = rng.choice([1, 1, 2, 3, rng.randint(1, 2 ** 31 - 2)])
        p = P(3, k, r, N1=n1, seed=seed, payload="rnd" if mid and rng.random() < 0.5 else "id",
              length=rng.choice([1, 3, 8, 16, 33]) if mid else None)
        if p.payload == "id":
            p = P(3, k, r, N1=n1, seed=seed)
        size = min(p.n, max(1, k + rng.choice([-1, 0, 0, 1, 1, 2, 3])))
        if rng.random() < 0.5:
            sub = rng.sample(range(p.n), size)
        else:       # losses in bursts: runs of consecutive repair symbols survive (chains along the staircase)
            start = rng.randrange(p.n)
            sub = sorted({(start + i) % p.n for i in range(size)})
            for _ in range(rng.randint(0, 2)):
                if sub:
                    sub[rng.randrange(len(sub))] = rng.randrange(p.n)
            sub = list(dict.fromkeys(sub))
            rng.shuffle(sub)
        api = rng.choice(apis)
        execs.append(gen.decode_exec(p, sorted(sub) if api == "setavail" else sub, api=api, finish=finish, cb=rng.choice(cbs), probe="end"))
    return execs


def rs_every_code(rng, nmax8=24):
    """every (k, n) of GF(2^4) and every (k, n <= nmax8) of the two GF(2^8) codecs, with as many source symbols lost as
    the code can repair (up to three) and the same number of repair symbols in their place"""
    execs = []
    for (c, m, lim) in ((2, 4, 15), (1, 0, nmax8), (2, 8, nmax8)):
        for n in range(2, lim + 1):
            for k in range(1, n):
                p = P(c, k, n - k, m=m)
                for nl in sorted({min(k, n - k, 3), min(k, n - k, 2)}):
                    lost = set(rng.sample(range(k), nl))
                    sub = [e for e in range(k) if e not in lost] + rng.sample(range(k, n), nl)
                    rng.shuffle(sub)
                    api = rng.choice(["recv", "setavail"])
                    execs.append(gen.decode_exec(p, sorted(sub) if api == "setavail" else sub, api=api, finish=True, probe="end"))
    return execs


def rs_pow2(rng, cbs=(None,)):
    """Reed-Solomon codes whose k, n or n-k are powers of two (or next to one): the sizes at which tables of k, n,
    k*k or n*k elements meet fixed-size buffers.  One encoder and one decoder (one source symbol lost) per code."""
    execs = []
    ks = [1, 2, 4, 8, 16, 32, 64, 128]
    pairs = set()
    for k in ks:
        for n in [2, 4, 8, 16, 32, 64, 128, 255, k + 1, 2 * k, 2 * k - 1, 2 * k + 1]:
            if k < n <= 255:
                pairs.add((k, n))
    for (k, n) in sorted(pairs):
        for (c, m) in ((1, 0), (2, 8)) + (((2, 4),) if n <= 15 else ()):
            p = P(c, k, n - k, m=m, length=rng.choice([1, 4, 9]) if k > 8 else None, payload="rnd" if k > 8 else "id")
            esis = sorted({k, n - 1})
            execs.append(gen.encode_exec(p, order=esis, slots=rng.choice(["buf", "null"])))
            lost = rng.randrange(k)
            sub = [e for e in range(k) if e != lost] + [rng.randrange(k, n)]
            rng.shuffle(sub)
            api = rng.choice(["recv", "setavail"])
            execs.append(gen.decode_exec(p, sorted(sub) if api == "setavail" else sub, api=api, finish=True, cb=rng.choice(cbs), probe="end"))
    return execs


def high_rate_ldpc(rng, count):
    """LDPC-Staircase codes with many source symbols per equation (k/(n-k) large, N1 up to n-k): the rows of H get
    long and uneven (several columns can draw the same row); encoder sessions building every repair symbol, and
    decoders that lost one source symbol"""
    execs = []
    for _ in range(count):
        k = rng.randint(20, 80); r = rng.randint(4, 12); n1 = rng.randint(3, min(10, r))
        p = P(3, k, r, N1=n1, seed=rng.choice([1, 2, 3, rng.randint(1, 2 ** 31 - 2)]))
        execs.append(gen.encode_exec(p, slots=rng.choice(["buf", "null", ["buf", "null"]])))
        lost = rng.randrange(k)
        sub = [e for e in range(p.n) if e != lost and rng.random() < 0.95]
        rng.shuffle(sub)
        execs.append(gen.decode_exec(p, sub, api="recv", finish=True, probe="end"))
    return execs


def big_symbols(rng, count, cbs=(None,)):
    """every codec with symbol lengths at the page / 16-bit sizes (random payloads: the driver reports equality
    with the original symbol), small codes, received sets at the threshold so that symbols really get decoded"""
    execs = []
    for i in range(count):
        c = (1, 2, 2, 3, 3, 3)[i % 6]
        length = BIG_LENGTHS[((i // 6) * 5) % len(BIG_LENGTHS)] if rng.random() < 0.7 else rng.choice(BIG_LENGTHS)
        if c == 3:
            k = rng.randint(3, 12); r = rng.randint(4, 9)
            p = P(3, k, r, N1=rng.randint(3, min(r, 5)), seed=rng.randint(1, 10 ** 6), length=length, payload="rnd", align=gen.pick_align(rng))
            size = min(p.n, k + rng.choice([0, 1, 1, 2]))
        else:
            m = 0 if c == 1 else (4, 8)[(i // 3) % 2]
            k = rng.randint(2, 7); r = rng.randint(2, 5)
            p = P(c, k, r, m=m, length=length, payload="rnd", align=gen.pick_align(rng))
            size = k
        sub = rng.sample(range(p.n), size)
        api = rng.choice(["recv", "setavail"])
        execs.append(gen.decode_exec(p, sorted(sub) if api == "setavail" else sub, api=api, finish=True, cb=rng.choice(cbs), probe="end",
                                     refinish=rng.random() < 0.3))
    return execs


def dense_ldpc(rng, count, cbs=(None,), finish_choices=(False,), probe="each"):
    """high-degree codes (N1 close to n-k): one arrival brings many equations to degree one at once,
    long recursion chains, growth of the degree-one work table"""
    execs = []
    for _ in range(count):
        k = rng.randint(3, 12)
        r = rng.randint(5, 10)
        n1 = rng.choice([r, r - 1, max(3, r - 2)])
        if rng.random() < 0.2:      # dozens of equations per symbol: tiny k with many repairs, or N1 in the tens
            k = rng.choice([1, 2, 2, 3, rng.randint(4, 10)])
            r = rng.randint(17, 40)
            n1 = rng.choice([3, 5, r, r - 1, rng.randint(3, r)]) if k <= 3 else rng.randint(9, r)
        p = P(3, k, r, N1=n1, seed=rng.randint(1, 2 ** 31 - 2), length=gen.need_len(3, k, 0) + rng.choice([0, 1]))
        # most repairs first, then sources in random order with a few missing: peeling cascades
        reps = [e for e in range(k, p.n) if rng.random() < 0.9]
        srcs = [e for e in range(k) if rng.random() < 0.8]
        if rng.random() < 0.35:
            # every other repair symbol: each equation keeps one unknown repair, so the last source symbols to arrive
            # bring many equations to degree one at once, with DIFFERENT symbols to rebuild (and chains behind them)
            par = rng.randrange(2)
            reps = [e for e in range(k, p.n) if (e - k) % 2 == par or rng.random() < 0.12]
            srcs = [e for e in range(k) if rng.random() < 0.93]
        rng.shuffle(reps)
        rng.shuffle(srcs)
        order = reps + srcs if rng.random() < 0.7 else srcs + reps
        if rng.random() < 0.3:
            rng.shuffle(order)
        execs.append(gen.decode_exec(p, order, api="recv", finish=rng.choice(finish_choices), cb=rng.choice(cbs), probe=probe))
    return execs


def fragile_ldpc(rng, drv, bdir, tier):
    """streaming histories chosen by lib/peel.py: one arrival brings nine or more (T: also 13+, 17+) equations to degree
    one at once, and a window of that work list is the only route to a source symbol -- the histories on which a work
    list that loses entries when it grows would show.  Codes with heavy columns (N1 >= 9); the parity-check matrices
    are asked from the implementation under check first (one `params` call per code)."""
    import peel
    q = tier == "quick"
    execs = []
    info = []
    for (min_batch, ncodes, tries, n1max) in ((9, 48, 12000, 14),) if q else ((9, 160, 40000, 14), (13, 96, 40000, 18), (17, 64, 40000, 24)):
        pts = []
        for _ in range(ncodes):
            k = rng.randint(4, 12); n1 = rng.randint(min_batch, n1max); r = rng.randint(max(12, n1), max(24, n1 + 6))
            pts.append(P(3, k, r, N1=n1, seed=rng.randint(1, 10 ** 6)))
        Hs = peel.fetch_H(drv, bdir, pts)
        if Hs is None:      # the implementation did not report one matrix per point: nothing to search in
            info.append({"min_batch": min_batch, "histories": 0, "note": "no parity-check matrices reported"})
            continue
        res = peel.search(pts, Hs, rng, tries, min_batch)
        narrow = [x for x in res if x[4] <= min_batch - 2]
        wide = [x for x in res if x[4] > min_batch - 2]
        rng.shuffle(wide)
        pick = narrow[: (400 if q else 4000)] + wide[: (80 if q else 800)]
        for (p, order, ln, a, w) in pick:
            execs.append(gen.decode_exec(p, order, api="recv", finish=False, probe="end"))
        info.append({"min_batch": min_batch, "codes": ncodes, "searched": ncodes * tries, "fragile_found": len(res),
                     "executed": len(pick), "executed_with_window_below_batch_minus_2": len(narrow[: (400 if q else 4000)])})
    return execs, info


def big_ldpc(rng, ks, finish=True):
    """sizes beyond one allocation block of the sparse matrix (1024 entries) and 16 / 32 / 64-bit word boundaries"""
    execs = []
    for k in ks:
        r = max(3, k // rng.choice([2, 3]))
        p = P(3, k, r, N1=rng.choice([3, 4, 5]), seed=rng.randint(1, 10 ** 9), length=rng.choice([1, 4, 9]), payload="rnd")
        keep = min(1.0, k / p.n + rng.uniform(0.02, 0.12))
        sub = [e for e in range(p.n) if rng.random() < keep]
        rng.shuffle(sub)
        execs.append(gen.decode_exec(p, sub, api="recv", finish=finish, cb=rng.choice([None, "buf"]), probe="end"))
        # the same k with a handful of repair symbols: every equation holds hundreds of symbols (beyond 255, where a
        # per-equation counter of one byte would wrap).  Once with a few source symbols lost and all repair symbols
        # received, once with every other source symbol and no repair symbol (nothing can be rebuilt)
        r2 = rng.randint(3, 7)
        p2 = P(3, k, r2, N1=3, seed=rng.randint(1, 10 ** 9), length=rng.choice([1, 4, 9]), payload="rnd")
        lost = set(rng.sample(range(k), rng.randint(1, 3)))
        sub2 = [e for e in range(p2.n) if e not in lost]
        rng.shuffle(sub2)
        execs.append(gen.decode_exec(p2, sub2, api="recv", finish=finish, probe="end"))
        execs.append(gen.decode_exec(p2, [e for e in range(k) if e % 2 == 0], api="recv", finish=False, probe="end"))
    return execs


def rs_recv_then_table(rng, count):
    """Reed-Solomon sessions that first receive a few symbols one by one (fewer than k) and then hand over the whole
    reception table -- a superset of what was submitted, so that "the table replaces" and "the table is added" mean the
    same -- possibly followed by more arrivals (what the shipped example client does when its first attempt failed).
    The number of source symbols before and in the table is drawn so that their sum often equals k."""
    execs = []
    for _ in range(count):
        (c, m) = rng.choice([(1, 0), (2, 4), (2, 8)])
        n = rng.randint(3, 15 if m == 4 else 24)
        k = rng.randint(2, n - 1)
        p = P(c, k, n - k, m=m)
        s_src = rng.randint(1, k - 1)
        first = rng.sample(range(k), s_src)
        if rng.random() < 0.3 and n - k >= 1 and len(first) + 1 < k:
            first.append(rng.randrange(k, n))
        rng.shuffle(first)
        t_src = rng.choice([k - s_src, k - s_src, rng.randint(s_src, k)]) if k - s_src >= s_src else rng.randint(s_src, k)
        extra_src = rng.sample([e for e in range(k) if e not in first], max(0, t_src - s_src))
        table = set(first) | set(extra_src)
        want = rng.choice([k, k, k - 1, k + 1, len(table)])
        reps = [e for e in range(k, n) if e not in table]
        rng.shuffle(reps)
        while len(table) < want and reps:
            table.add(reps.pop())
        rest = [e for e in range(n) if e not in table]
        rng.shuffle(rest)
        ex = ["create 0 %d dec" % c, p.params_line(0)]
        cb = rng.choice([None, None, "buf", "null"])
        if cb:
            ex.append("cb 0 %s" % cb)
        for e in first:
            ex.append("recv 0 %d" % e)
        ex += ["complete 0", "setavail 0 %s" % ",".join(str(e) for e in sorted(table)), "complete 0", "gettab 0"]
        for e in rest[:rng.choice([0, 0, 1, 2])]:
            ex += ["recv 0 %d" % e, "complete 0"]
        ex += ["finish 0", "complete 0", "gettab 0", "release 0"]
        execs.append(ex)
    return execs


def random_rs(rng, count, nmax, cbs=(None,), apis=("recv", "setavail"), payloads=("id", "rnd")):
    execs = []
    for _ in range(count):
        c = rng.choice([1, 2, 2])
        m = 0 if c == 1 else rng.choice([4, 8])
        lim = 255 if (c == 1 or m == 8) else 15
        n = rng.randint(2, min(nmax, lim))
        k = rng.randint(1, n - 1)
        payload = rng.choice(payloads)
        length = gen.need_len(c, k, m) + rng.choice([0, 0, 1, 5, 11, 16, 23, 40]) if payload == "id" else pick_len(rng, n)
        p = P(c, k, n - k, m=m, length=length, payload=payload, align=gen.pick_align(rng))
        cnt = rng.choice([k, k, k + 1, k + 2, max(0, k - 1), rng.randint(0, n)])
        cnt = min(cnt, n)
        sub = rng.sample(range(n), cnt)
        if rng.random() < 0.3 and sub:
            sub.insert(rng.randrange(len(sub) + 1), rng.choice(sub))
        api = rng.choice(apis)
        if api == "setavail" and rng.random() < 0.25:
            api = "mixed"
        if api == "setavail":
            sub = sorted(set(sub))
        fin = rng.choice([True, True, False])
        cbm = rng.choice(cbs)
        execs.append(gen.decode_exec(p, sub, api=api, finish=fin, cb=cbm,
                                     probe="each" if n <= 12 else "end",
                                     refinish=fin and rng.random() < 0.3, **both_role(rng, p), **cb_timing(rng, cbm), **mixed_cut(rng, api, sub)))
    return execs


def release_everywhere(pts, rng, cbs=(None, "buf", "null")):
    """release at every point of a life cycle (C08)"""
    execs = []
    for p in pts:
        for cb in cbs:
            subs = [list(range(p.n)), [e for e in range(p.n) if e % 2 == 0], list(range(p.k, p.n)),
                    rng.sample(range(p.n), max(1, p.n - 2)), rng.sample(range(p.n), max(1, p.k))]
            for sub in subs:
                order = list(sub)
                rng.shuffle(order)
                for api in ("recv", "setavail"):
                    ncalls = (len(order) if api == "recv" else 1) + 1
                    for rel in range(0, ncalls + 1):
                        execs.append(gen.decode_exec(p, sorted(order) if api == "setavail" else order, api=api, finish=True,
                                                     cb=cb, probe="end", release_at=rel))
        # a rejected configuration, released at once or after a second, accepted one
        bad = {1: "rawparams 0 300 5 4 0 0 0", 2: "rawparams 0 3 2 4 5 0 0", 3: "rawparams 0 %d %d 4 0 2 1" % (p.k, p.r),
               5: "rawparams 0 0 4 4 0 0 0"}.get(p.codec)
        if bad:
            for role in ("enc", "dec"):
                execs.append(["create 0 %d %s" % (p.codec, role), bad, "release 0"])
                execs.append(["create 0 %d %s" % (p.codec, role), bad, bad, p.params_line(0), "release 0"])
        # unconfigured / configured-only
        execs.append(["create 0 %d dec" % p.codec, "release 0"])
        execs.append(["create 0 %d dec" % p.codec, p.params_line(0), "release 0"])
        execs.append(["create 0 %d enc" % p.codec, "release 0"])
        execs.append(gen.encode_exec(p))
        execs.append(gen.encode_exec(p, release_at=1))
    return execs


def tlc_behaviours(bdir, tier):
    """direction 1: behaviours generated by TLC from the IT decoder model (simulation), replayed in the real decoder"""
    import json
    import subprocess
    num = 150 if tier == "quick" else 2500
    mdir = os.path.join(bdir, "gen")
    os.makedirs(mdir, exist_ok=True)
    args = ["java", "-XX:+UseParallelGC", "-Xmx2g", "-cp", vlib.TLA_CP, "tlc2.TLC", "-simulate", "num=%d" % num, "-depth", "40",
            "-workers", "4", "-seed", str(vlib.seed()), "-metadir", mdir, "-config", os.path.join(vlib.SPEC, "LdpcItGen.cfg"),
            os.path.join(vlib.SPEC, "LdpcItGen.tla")]
    budget = 45 if tier == "quick" else 600
    try:
        out = subprocess.run(args, capture_output=True, text=True, timeout=budget, cwd=vlib.SPEC).stdout
    except subprocess.TimeoutExpired as e:
        out = e.stdout.decode() if isinstance(e.stdout, bytes) else (e.stdout or "")   # keep what was generated in time
    if "Error:" in out and "BEH" not in out:
        raise vlib.Infra("LdpcItGen failed:\n" + out[-2000:])
    execs = []
    for ln in out.splitlines():
        ln = ln.strip()
        if not ln.startswith('"BEH '):
            continue
        b = json.loads(json.loads(ln)[4:])
        p = P(3, b["k"], b["r"], N1=b["N1"], seed=b["seed"])
        ex = gen.decode_exec(p, b["seq"], api="recv", finish=False, probe="each")
        ex.insert(len(ex) - 1, "expect 0 %s %d" % (",".join(str(x) for x in b["avail"]) or "-", 1 if b["complete"] else 0))
        execs.append(ex)
    if not execs:
        if "Error" in out:
            raise vlib.Infra("LdpcItGen failed:\n" + out[-1500:])
        vlib.log("note: LdpcItGen produced no behaviour within its time budget")
    return execs


def api_behaviours(bdir, tier, rng):
    """direction 1 at the API level: protocol-conforming histories of all codecs generated by TLC from
    ApiModel (random walks over the Env of the API specification), replayed in the real library"""
    import json
    import subprocess
    num = 120 if tier == "quick" else 2000
    mdir = os.path.join(bdir, "apigen")
    os.makedirs(mdir, exist_ok=True)
    args = ["java", "-XX:+UseParallelGC", "-Xmx2g", "-cp", vlib.TLA_CP, "tlc2.TLC", "-simulate", "num=%d" % num, "-depth", "60",
            "-workers", "4", "-seed", str(vlib.seed()), "-metadir", mdir, "-config", os.path.join(vlib.SPEC, "ApiModel_gen.cfg"),
            os.path.join(vlib.SPEC, "ApiModel_MC.tla")]
    budget = 25 if tier == "quick" else 600
    try:
        out = subprocess.run(args, capture_output=True, text=True, timeout=budget, cwd=vlib.SPEC).stdout
    except subprocess.TimeoutExpired as e:
        out = e.stdout.decode() if isinstance(e.stdout, bytes) else (e.stdout or "")
    execs = []
    for ln in out.splitlines():
        ln = ln.strip()
        if not ln.startswith('"ABEH '):
            continue
        b = json.loads(json.loads(ln)[5:])
        pt = b["ops"][0]
        codec, k, r, m, n1, sd = pt[1:7]
        p = P(codec, k, r, m=m, N1=n1, seed=sd)
        s = 0
        ex = ["create %d %d dec" % (s, codec), p.params_line(s)]
        cb = rng.choice([None, "buf", "null", "mix"])
        if cb:
            ex.append("cb %d %s" % (s, cb))
        for op in b["ops"][1:]:
            if op[0] == "recv":
                ex.append("recv %d %d" % (s, op[1]))
            elif op[0] == "setavail":
                ex.append("setavail %d %s" % (s, ",".join(str(x) for x in op[1]) if op[1] else "-"))
            else:
                ex.append("finish %d" % s)
            ex += ["complete %d" % s, "gettab %d" % s]
        ex.append("expect %d %s %d" % (s, ",".join(str(x) for x in b["avail"]) or "-", 1 if b["complete"] else 0))
        ex.append("release %d" % s)
        execs.append(ex)
    if not execs:
        if "Error" in out:
            raise vlib.Infra("ApiModel generation failed:\n" + out[-1500:])
        vlib.log("note: ApiModel generated no behaviour within its time budget")
    return execs


def eperf_suite(bdir, pid, tier, verdict, objs):
    """the repository's own eperftool tests (tests/CMakeLists.txt), executed with every API call routed through
    harness/eperf_shim.c; each recorded execution is validated by ApiTrace like any other trace"""
    import concurrent.futures as cf
    import re
    import subprocess
    tests = []
    for ln in open(os.path.join(vlib.REPO, "tests", "CMakeLists.txt")):
        m = re.match(r"\s*do_test\(\s*(\S+)\s+(.*)\)\s*$", ln)
        if not m:
            continue
        args = m.group(2).split()
        opt = dict(a.lstrip("-").split("=", 1) for a in args if "=" in a)
        src, rep = int(opt.get("tot_src", 0)), int(opt.get("tot_rep", 0))
        if src + rep <= (420 if tier == "quick" else 1000) and "find_min_overhead" not in " ".join(args):
            tests.append((m.group(1), args))
    if tier == "quick":
        tests = tests[::3]
    exe = vlib.build_eperf_shim(bdir, objs)
    env = dict(os.environ)
    env.update(vlib.ASAN_ENV)

    def one(t):
        name, args = t
        trc = os.path.join(bdir, "eperf_%s.ndjson" % re.sub(r"[^A-Za-z0-9_.-]", "_", name))
        e = dict(env)
        e["EPERF_TRACE"] = trc
        try:
            subprocess.run([exe] + args, env=e, capture_output=True, text=True, timeout=300)
        except subprocess.TimeoutExpired:
            return (name, args, None)
        return (name, args, trc if os.path.exists(trc) else None)

    with cf.ThreadPoolExecutor(vlib.NCPU) as ex:
        runs = [r for r in ex.map(one, tests) if r[2]]
    # validate: several traces per TLC process
    groups = [runs[i::vlib.NCPU] for i in range(vlib.NCPU)]

    def val(gi):
        g = groups[gi]
        if not g:
            return []
        cat = os.path.join(bdir, "eperf_cat_%02d.ndjson" % gi)
        bounds = []
        n = 0
        with open(cat, "w") as f:
            for (name, args, trc) in g:
                lines = open(trc).readlines()
                f.writelines(lines)
                n += len(lines)
                bounds.append((n, name, args))
        r = vlib.run_tlc(os.path.join(vlib.SPEC, "ApiTrace.tla"), os.path.join(vlib.SPEC, "ApiTrace.cfg"),
                         os.path.join(bdir, "tlc_eperf_%02d" % gi), env={"TRACE": cat}, workers=1, timeout=3000)
        if "Model checking completed" not in r.out or ("Postcondition" in r.out and "is false" in r.out):
            raise vlib.Infra("eperftool trace %s not fully consumed:\n%s" % (cat, r.out[-2000:]))
        out = []
        for m in apicheck.parse_vmsg(r.out):
            for (end, name, args) in bounds:
                if m["line"] <= end:
                    m["test"], m["args"] = name, args
                    break
            out.append(m)
        return [(out, r.states, r.distinct, n)]

    with cf.ThreadPoolExecutor(vlib.NCPU) as ex:
        res = [x for lst in ex.map(val, range(len(groups))) for x in lst]
    msgs = [m for (ms, _, _, _) in res for m in ms]
    infra = [m for m in msgs if "INFRA" in m["tags"]]
    if infra:
        raise vlib.Infra("eperftool trace violates the driver protocol assumed by the spec: %r" % infra[:3])
    for m in msgs:
        if pid in m["tags"] or m["check"].startswith("memfault-"):
            d = os.path.join(vlib.VERIF, "replays", pid)
            os.makedirs(d, exist_ok=True)
            fn = os.path.join(d, "eperftool_%s.cmd" % m.get("test", "unknown"))
            with open(fn, "w") as f:
                f.write("# eperftool test whose recorded execution is rejected by ApiTrace (%s, line %d)\neperftool %s\n"
                        % (m["check"], m["line"], " ".join(m.get("args", []))))
            verdict.report("%s/codec%s" % (m["check"], m["codec"]), "eperftool test %s" % m.get("test"), fn)
    return {"tests_run": len(runs), "trace_lines": sum(x[3] for x in res), "states": sum(x[1] for x in res),
            "distinct": sum(x[2] for x in res)}


def workload(pid, tier, rng):
    q = tier == "quick"
    execs = []
    ld_small = gen.ldpc_points(11 if q else 12, 12 if q else 15)
    ld_mid = [p for p in gen.ldpc_points(16) if p.n > (10 if q else 12)][: (2 if q else 6)]
    rs_small = gen.rs_points(6 if q else 8, ms=(4, 8))
    rs_mid = [p for p in gen.rs_points(10 if q else 12, ms=(4,), codecs=(2,)) if p.n > (6 if q else 8)]
    cbs_all = (None, "buf", "null", "mix", "buf rep", "null rep", "slab")
    if pid == "C01":
        execs += ldpc_exhaustive(ld_small[:4 if q else 8], rng, apis=("recv", "setavail"), finish=(True, False), orders=1, probe="end")
        execs += ldpc_exhaustive(ld_small[:2 if q else 4], rng, apis=("recv",), cbs=("buf", "mix"), orders=2, probe="end")
        execs += rs_exhaustive(rs_small, rng, apis=("recv", "setavail"), orders=1, probe="end", cbs=(None, "buf"))
        execs += random_ldpc(rng, 300 if q else 1500, 40 if q else 64, cbs=cbs_all)
        execs += random_ldpc(rng, 10 if q else 100, 300, cbs=(None, "buf"), payloads=("rnd",), dup=False)
        execs += dense_ldpc(rng, 100 if q else 800, cbs=cbs_all, finish_choices=(True, False), probe="end")
        execs += big_ldpc(rng, [400, 700] if q else [400, 700, 1100, 2000])
        execs += random_rs(rng, 300 if q else 1500, 40 if q else 255, cbs=cbs_all)
        execs += random_rs(rng, 20 if q else 300, 255, cbs=(None, "buf"), payloads=("rnd",))
        execs += big_symbols(rng, 36 if q else 300, cbs=cbs_all)
        execs += rs_pow2(rng, cbs=cbs_all)
        execs += threshold_ldpc(rng, 150 if q else 1000, mid=True, cbs=cbs_all)
    elif pid == "C02":
        execs += rs_exhaustive(rs_small, rng, apis=("recv", "setavail"), orders=2 if q else 4, probe="each")
        execs += rs_exhaustive(rs_small, rng, apis=("mixed",), orders=1, probe="end")
        execs += rs_pow2(rng)
        execs += rs_every_code(rng, 24 if q else 48)
        execs += rs_exhaustive(rs_mid, rng, apis=("recv", "setavail"), orders=1, probe="end", maxsub=150 if q else 1500)
        execs += random_rs(rng, 300 if q else 20000, 255)
        execs += rs_recv_then_table(rng, 300 if q else 5000)
        # the MDS argument rests on the generator being V_rest * V_top^-1: one (T: four) repair row(s) of EVERY k,
        # both GF(2^8) implementations, validated by ApiTrace!DoBuild (g * V_top = V[esi])
        for k in range(1, 255):
            for (c, m) in ((1, 0), (2, 8)):
                r = rng.randint(1, 255 - k)
                esis = sorted(set(rng.sample(range(k, k + r), min(r, 1 if q else 4))))
                execs.append(gen.encode_exec(P(c, k, r, m=m, length=k + rng.choice([0, 3])), order=esis))
        for k in range(1, 15):
            execs.append(gen.encode_exec(P(2, k, 15 - k, m=4)))
    elif pid == "C03":
        execs += ldpc_exhaustive(ld_small, rng, apis=("recv", "setavail"), finish=(True,), orders=1 if q else 2, probe="end")
        execs += ldpc_exhaustive(ld_mid, rng, apis=("recv",), finish=(True,), orders=1, probe="end", maxsub=800 if q else 8000)
        execs += dense_ldpc(rng, 100 if q else 1500, finish_choices=(True,), probe="end")
        execs += threshold_ldpc(rng, 800 if q else 8000)
        execs += threshold_ldpc(rng, 150 if q else 1500, mid=True)
        execs += big_ldpc(rng, [350, 600] if q else [350, 600, 1100, 2500, 6000])
        for sd in (1, 7, 12345):
            ex = random_ldpc(rng, 60 if q else 600, 48 if q else 64, apis=("recv", "setavail"), finish_choices=(True,),
                             probe_choices=("end",))
            execs += [["srand %d" % sd] + e for e in ex]
    elif pid == "C04":
        execs += ldpc_exhaustive(ld_small, rng, apis=("recv",), finish=(False,), orders=2 if q else 3, probe="each")
        execs += ldpc_exhaustive(ld_mid, rng, apis=("recv",), finish=(False,), orders=1, probe="each", maxsub=300 if q else 4000)
        execs += random_ldpc(rng, 150 if q else 2000, 40 if q else 64, apis=("recv",), finish_choices=(False,),
                             probe_choices=("each",))
        execs += random_ldpc(rng, 8 if q else 60, 300, apis=("recv",), finish_choices=(False,), probe_choices=("end",),
                             payloads=("id",), dup=False)
        execs += dense_ldpc(rng, 200 if q else 3000)
        execs += threshold_ldpc(rng, 800 if q else 12000, apis=("recv",), finish=False)
        execs += [e for e in big_ldpc(rng, [450, 800] if q else [450, 800, 1500, 3000], finish=False)]
    elif pid == "C10":
        execs += ldpc_exhaustive(ld_small[:4 if q else 8], rng, apis=("recv", "setavail"), finish=(True,), orders=1, probe="each")
        execs += rs_exhaustive(rs_small, rng, apis=("recv", "setavail", "mixed"), orders=1, probe="each")
        for p in ld_small[:4] + rs_small[:12]:
            full = list(range(p.n))
            execs.append(gen.decode_exec(p, full, finish=True, probe="each", query_first=True, double_finish=True))
            execs.append(gen.decode_exec(p, list(range(p.k)), finish=True, probe="each", double_finish=True))
            execs.append(gen.decode_exec(p, [], finish=True, probe="each", query_first=True))
            execs.append(gen.decode_exec(p, full, api="setavail", finish=True, probe="each", double_finish=True))
        execs += random_ldpc(rng, 100 if q else 8000, 40 if q else 64, cbs=cbs_all)
        execs += random_rs(rng, 100 if q else 8000, 40 if q else 255, cbs=cbs_all)
        execs += big_symbols(rng, 24 if q else 400, cbs=cbs_all)
        execs += rs_recv_then_table(rng, 150 if q else 2000)
    elif pid == "C11":
        execs += ldpc_exhaustive(ld_small[:4 if q else 8], rng, apis=("recv", "setavail"), finish=(True,),
                                 cbs=CB11, orders=1, probe="end")
        execs += rs_exhaustive(rs_small[:30 if q else 60], rng, apis=("mixed",), cbs=("buf", "mix"), orders=1, probe="end")
        execs += rs_exhaustive(rs_small[:30 if q else None], rng, apis=("recv", "setavail"), cbs=CB11,
                               orders=1, probe="end")
        execs += random_ldpc(rng, 600 if q else 10000, 40 if q else 64, cbs=CB11)
        execs += dense_ldpc(rng, 300 if q else 5000, cbs=CB11, finish_choices=(True, False), probe="end")
        execs += random_rs(rng, 600 if q else 10000, 40 if q else 255, cbs=CB11)
        execs += big_symbols(rng, 48 if q else 800, cbs=CB11)
    elif pid == "C08":
        execs += release_everywhere(ld_small[:8 if q else 12] + [rs_small[i] for i in range(0, len(rs_small), 3 if q else 1)], rng)
        execs += random_ldpc(rng, 600 if q else 10000, 40 if q else 64, cbs=cbs_all)
        execs += dense_ldpc(rng, 300 if q else 5000, cbs=cbs_all, finish_choices=(True, False), probe="end")
        execs += random_rs(rng, 600 if q else 10000, 40 if q else 255, cbs=cbs_all)
        execs += big_ldpc(rng, [400] if q else [400, 1200, 3000])
        execs += big_symbols(rng, 24 if q else 400, cbs=cbs_all)
        execs += rs_pow2(rng, cbs=cbs_all)
    elif pid == "C07":
        # lengths, alignments, limits
        for length in ([1, 2, 3, 4, 5, 7, 8, 9, 12, 15, 16, 17, 20, 24, 28, 31, 32, 33, 44] + ([] if q else [47, 63, 64, 65, 100, 1024, 1316])):
            for align in (0, 1, 3, 4, 7):
                for (c, k, r, m, n1) in ((3, 5, 4, 0, 3), (1, 4, 3, 0, 0), (2, 4, 3, 4, 0), (2, 4, 3, 8, 0)):
                    p = P(c, k, r, m=m, N1=n1, seed=3, length=length, payload="rnd", align=align)
                    sub = rng.sample(range(p.n), p.k + 1)
                    execs.append(gen.decode_exec(p, sub, api=rng.choice(["recv", "setavail"]), finish=True,
                                                 cb=rng.choice(cbs_all), probe="end"))
                    execs.append(gen.encode_exec(p))
        for (c, k, r, m) in ((1, 255 - 2, 2, 0), (1, 1, 254, 0), (2, 253, 2, 8), (2, 13, 2, 4), (2, 1, 14, 4), (1, 128, 127, 0)):
            p = P(c, k, r, m=m, length=rng.choice([1, 5, 16]), payload="rnd")
            execs.append(gen.decode_exec(p, rng.sample(range(p.n), k), finish=True, probe="end"))
            execs.append(gen.decode_exec(p, rng.sample(range(p.n), k), api="setavail", finish=True, probe="end", cb="buf"))
            execs.append(gen.encode_exec(p))
        execs += release_everywhere(ld_small[:4] + rs_small[:8], rng, cbs=(None, "mix"))
        execs += random_ldpc(rng, 800 if q else 30000, 40 if q else 100, cbs=cbs_all)
        execs += dense_ldpc(rng, 300 if q else 12000, cbs=cbs_all, finish_choices=(True, False), probe="end")
        execs += random_rs(rng, 800 if q else 30000, 60 if q else 255, cbs=cbs_all)
        execs += big_ldpc(rng, [500] if q else [500, 1500, 4000])
        execs += big_symbols(rng, 36 if q else 600, cbs=cbs_all)
        execs += rs_pow2(rng, cbs=cbs_all)
        execs += high_rate_ldpc(rng, 100 if q else 2000)
        if not q:
            p = P(3, 2000, 1000, N1=3, seed=9, length=8, payload="rnd")
            execs.append(gen.decode_exec(p, rng.sample(range(p.n), 2300), finish=True, probe="end"))
    return execs


MODELS = {
    # pid: list of (spec, cfg_quick, cfg_thorough, workers)
    "C01": [("LdpcIt_MC", "LdpcIt_quick", "LdpcIt_thorough")],
    "C04": [("LdpcIt_MC", "LdpcIt_quick", "LdpcIt_thorough")],
    "C03": [("LdpcMl_MC", "LdpcMl_quick", "LdpcMl_thorough")],
    "C02": [("RsSession", "RsSession", "RsSession_thorough"), ("ApiModel_MC", "ApiModel", "ApiModel"),
            ("RsCodecModel", "RsCodec_quick", "RsCodec_gf16"), ("RsCodecModel", "RsCodec_gf256_quick", "RsCodec_gf256")],
    "C08": [("ApiModel_MC", "ApiModel", "ApiModel"), ("LdpcIt_MC", "LdpcIt_quick", "LdpcIt_thorough"), ("LdpcIt_MC", "LdpcIt_quick_cb", "LdpcIt_quick_cb"),
            ("LdpcMl_MC", "LdpcMl_quick", "LdpcMl_thorough"), ("LdpcMl_MC", None, "LdpcMl_quick_cb")],
    "C10": [("RsSession", "RsSession", "RsSession_thorough"), ("LdpcMl_MC", "LdpcMl_quick", "LdpcMl_thorough"),
            ("ApiModel_MC", "ApiModel", "ApiModel")],
    "C11": [("RsSession", "RsSession", "RsSession_thorough")],
}

# x = (chunk, exec, dec, finok, finfail, cbn, calls, gettab, build, skipped)
NONTRIVIAL = {
    "C01": lambda x: x[2] > 0,
    "C02": lambda x: x[6] > 4,
    "C03": lambda x: x[3] + x[4] > 0 and (x[2] > 0 or x[4] > 0),
    "C04": lambda x: x[2] > 0,
    "C10": lambda x: x[3] + x[4] > 0,
    "C11": lambda x: x[5] > 0,
    "C08": lambda x: x[6] > 2,
    "C07": lambda x: x[6] > 3,
}

RULES = {
    "C01": "executions distinct as behaviour texts (parameter point, received sequence, API path, callback mode); non-trivial = the trace spec counted at least one source symbol that became available without having been submitted",
    "C02": "executions distinct as behaviour texts (codec, m, k, n, received sequence, API); non-trivial = more than four validated API calls",
    "C03": "executions distinct as behaviour texts; non-trivial = of_finish_decoding was validated and either decoded something or reported failure",
    "C04": "executions distinct as behaviour texts (parameter point, arrival sequence); non-trivial = at least one source symbol released by peeling (counted by the trace spec)",
    "C10": "executions distinct as behaviour texts; non-trivial = an of_finish_decoding status was validated",
    "C11": "executions distinct as behaviour texts; non-trivial = at least one callback invocation was validated",
    "C08": "executions distinct as behaviour texts; non-trivial = released after at least one call beyond create/params",
    "C07": "executions distinct as behaviour texts; non-trivial = more than three validated API calls under ASan",
}


def run(pid, tier):
    t0 = time.time()
    rng = random.Random(vlib.seed() * 1000003 + int(pid[1:]))
    bdir = vlib.scratch(pid)
    verdict = vlib.Verdict(pid)
    try:
        mc_states = mc_trans = 0
        mc_runs = []
        for (spec, cq, ct) in MODELS.get(pid, []):
            cfg = cq if tier == "quick" else ct
            if cfg is None:
                continue
            mc = vlib.run_tlc(os.path.join(vlib.SPEC, spec + ".tla"), os.path.join(vlib.SPEC, cfg + ".cfg"),
                              os.path.join(bdir, "mc_" + cfg), workers=8, xmx="6g", timeout=3000)
            if mc.violated or "Model checking completed. No error" not in mc.out:
                raise vlib.Infra("%s/%s: the model itself violates an invariant (design-level problem or spec bug):\n%s"
                                 % (spec, cfg, mc.out[-3000:]))
            mc_states += mc.distinct
            mc_trans += mc.states
            mc_runs.append({"spec": spec, "cfg": cfg, "distinct": mc.distinct, "generated": mc.states})
        if pid == "C02":
            # non-vacuity of the MDS lemma: with n beyond the field (ESI 16 of GF(2^4) re-uses the evaluation point of
            # ESI 1: the configuration the open finding of C09 is about) the same model must find a singular selection
            neg = vlib.run_tlc(os.path.join(vlib.SPEC, "RsCodecModel.tla"), os.path.join(vlib.SPEC, "RsCodec_beyond_field.cfg"),
                               os.path.join(bdir, "mc_neg"), workers=2, xmx="1g", timeout=600, extra=("-noGenerateSpecTE",))
            if "Invariant DecodeOK is violated" not in neg.out:
                raise vlib.Infra("RsCodecModel: n beyond the field does not violate DecodeOK (the lemma would be vacuous):\n" + neg.out[-2000:])
            mc_runs.append({"spec": "RsCodecModel", "cfg": "RsCodec_beyond_field (must violate DecodeOK)", "distinct": neg.distinct, "generated": neg.states})
        drv = vlib.build_driver(bdir)
        ep = None
        if pid == "C10" or (tier == "thorough" and pid in ("C01", "C02", "C03", "C04")):
            ep = eperf_suite(bdir, pid, tier, verdict, vlib.build_lib(bdir))
        execs = workload(pid, tier, rng)
        ngen = 0
        fragile = None
        if pid == "C04":
            fx, fragile = fragile_ldpc(rng, drv, bdir, tier)
            execs += fx
        if pid in ("C04", "C01"):
            gen_execs = tlc_behaviours(bdir, tier)
            ngen = len(gen_execs)
            execs += gen_execs
        if pid in ("C01", "C02", "C03", "C08", "C10", "C11"):
            gen_execs = api_behaviours(bdir, tier, rng)
            ngen += len(gen_execs)
            execs += gen_execs
        lines = gen.join(execs).split("\n")
        strict = pid in ("C04", "C01", "C03", "C10")
        api = apicheck.run_api(bdir, drv, lines, spec="ApiTrace+LdpcItTrace" if strict else "ApiTrace",
                               drv_env={"OF_DRIVER_ITPROJ": "48"} if strict else None)
        if pid == "C02":
            for mm in api["msgs"]:
                if "INFRA" not in mm["tags"] and "C06" in mm["tags"] and pid not in mm["tags"]:
                    mm["tags"].append(pid)      # a non-canonical generator row voids the MDS argument
        apicheck.judge(pid, api, verdict)
        rc = verdict.finish()
        for dline in api["drift"][:5]:
            print("DRIFT module=LdpcIt/LdpcMl %s" % dline)
        distinct = len({tuple(e) for e in execs})
        nontrivial = apicheck.nontrivial_distinct(api, NONTRIVIAL.get(pid, lambda x: x[6] > 3))
        cov = {
            "states": mc_states + api["distinct"] + (ep["distinct"] if ep else 0),
            "transitions": mc_trans + api["states"] + (ep["states"] if ep else 0),
            "traces_validated_against_impl": api["execs"] + (ep["tests_run"] if ep else 0),
            "samples": apicheck.sample_execs(lines, 3),
            "evaluations": len(execs),
            "distinct_nontrivial": nontrivial,
            "rule": RULES.get(pid, "executions distinct as behaviour texts; non-trivial = more than create/params/release"),
            "model_runs": mc_runs,
            "spec_counters": apicheck.stats_summary(api),
            "eperftool_tests_validated": ep,
            "tlc_generated_behaviours_replayed": ngen,
            "fragile_batch_histories": fragile,
            "layer_b_steps_matched": api.get("itsteps", 0), "layer_b_finish_calls_matched": api.get("mlsteps", 0), "layer_b_bound": (len(api["drift"]) == 0) if strict else None,
            "drift_lines": len(api["drift"]),
            "trace_lines": api["lines"],
            "distinct_executions": distinct,
            "exhaustive": False,
        }
        vlib.write_evidence(pid, tier, "model_checking" if pid != "C07" else "exploration", cov, time.time() - t0,
                            len(verdict.violations),
                            ["identity payloads + linearity of the codecs reduce 'all source data' to coefficient vectors (C13/C14 check the kernels)",
                             "of_driver projection (harness/of_driver.c) reports observations faithfully",
                             "ASan + allocation ledger observe memory behaviour only on the executed histories"])
        return rc
    finally:
        vlib.cleanup(bdir)


def replay(pid, path):
    bdir = vlib.scratch(pid + "_replay")
    try:
        drv = vlib.build_driver(bdir)
        lines = [l for l in open(path).read().split("\n") if not l.startswith("#")]
        api = apicheck.run_api(bdir, drv, lines, nproc=1)
        verdict = vlib.Verdict(pid)
        apicheck.judge(pid, api, verdict)
        return verdict.finish()
    finally:
        vlib.cleanup(bdir)
