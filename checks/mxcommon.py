"""Shared orchestration for C17 (sparse.py) and C18 (dense.py): build matrix_driver, run operation
sequences ("executions") on the real code in parallel chunks, validate every trace with TLC against a
trace specification, turn VMSG lines into verdict reports with replay files.  No expected value is
computed here: the oracle is the TLA+ specification evaluated by TLC."""
import ast
import concurrent.futures as cf
import json
import os
import re
import time

import vlib

DRIVER_SRC = os.path.join(vlib.HARNESS, "matrix_driver.c")
ASAN_FAST = {"ASAN_OPTIONS": vlib.ASAN_ENV["ASAN_OPTIONS"] + ":symbolize=0:fast_unwind_on_fatal=1:print_summary=0"}


def build(bdir):
    vlib.stage_sources(bdir)
    objs = vlib.build_lib(bdir, asan=True, hooks=True)
    return vlib.build_prog(bdir, "matrix_driver", DRIVER_SRC, objs, wrap=True)


WEIGHT = {"block-chaining": 40}      # TLC cost per character of command text, relative (big matrices are expensive to project)


def cost(ex, fam=None):
    return (sum(len(ln) for ln in ex) + 40 * len(ex)) * WEIGHT.get(fam, 1)


def split(execs, nchunks):
    """execs: list of (family, [lines]); balanced chunks, order inside a chunk preserved"""
    nchunks = max(1, min(nchunks, len(execs)))
    chunks = [[] for _ in range(nchunks)]
    sizes = [0] * nchunks
    for item in sorted(execs, key=lambda e: cost(e[1], e[0]), reverse=True):
        i = sizes.index(min(sizes))
        chunks[i].append(item)
        sizes[i] += cost(item[1], item[0])
    return [c for c in chunks if c]


def parse_tuples(out, head):
    """<<"HEAD", ...>> tuples printed by PrintT; TLC wraps long ones over several lines"""
    res = []
    for m in re.finditer(r'<<\s*"%s",(.*?)>>' % head, out, flags=re.S):
        body = re.sub(r"\s*\n\s*", " ", m.group(1)).strip()
        try:
            res.append(ast.literal_eval("(" + body + ",)"))
        except Exception:
            raise vlib.Infra("cannot parse %s tuple printed by TLC: %r" % (head, m.group(0)[:300]))
    return res


def parse_vmsg(out):
    return [{"line": t[0], "exec": t[1], "tags": t[2].split(","), "check": t[3], "codec": t[4], "ctx": t[5]}
            for t in parse_tuples(out, "VMSG")]


def _one_chunk(args):
    drv, bdir, tag, idx, items, spec, xmx = args
    cmd = os.path.join(bdir, "%s_cmd_%03d.txt" % (tag, idx))
    trc = os.path.join(bdir, "%s_trace_%03d.ndjson" % (tag, idx))
    with open(cmd, "w") as f:
        for _, ex in items:
            f.write("\n".join(ex) + "\nreset\n")
    t0 = time.time()
    vlib.run_driver(drv, cmd, trc, timeout=3000, env=ASAN_FAST)
    t1 = time.time()
    nlines = 0
    nops = 0
    nfault = 0
    with open(trc) as f:
        for ln in f:
            nlines += 1
            if ln.startswith('{"e":"Op"'):
                nops += 1
            elif ln.startswith('{"e":"MemFault"'):
                nfault += 1
    r = vlib.run_tlc(os.path.join(vlib.SPEC, spec + ".tla"), os.path.join(vlib.SPEC, spec + ".cfg"),
                     os.path.join(bdir, "%s_tlc_%03d" % (tag, idx)), env={"TRACE": trc}, workers=1, timeout=3000, xmx=xmx)
    t2 = time.time()
    consumed = ("Postcondition" not in r.out or "is false" not in r.out) and "Model checking completed" in r.out
    if not consumed:
        raise vlib.Infra("trace %s not fully consumed by %s:\n%s" % (trc, spec, r.out[-3000:]))
    seen = set()
    msgs = []
    for m in parse_vmsg(r.out):
        k = (m["line"], m["check"], m["ctx"])
        if k in seen:
            continue
        seen.add(k)
        m["chunk"] = idx
        msgs.append(m)
    drift = sorted(set("%s" % (t,) for t in parse_tuples(r.out, "DRIFT")))
    stats = sorted(set(parse_tuples(r.out, "STAT")))
    os.remove(trc)
    return {"idx": idx, "items": items, "lines": nlines, "ops": nops, "faults": nfault, "states": r.states,
            "distinct": r.distinct, "msgs": msgs, "drift": drift, "stats": stats, "t_driver": t1 - t0, "t_tlc": t2 - t1}


def run_chunks(bdir, drv, execs, spec, tag="t", nproc=None, xmx="1g"):
    nproc = nproc or vlib.NCPU
    chunks = split(execs, nproc)
    with cf.ThreadPoolExecutor(nproc) as ex:
        results = list(ex.map(_one_chunk, [(drv, bdir, tag, i, c, spec, xmx) for i, c in enumerate(chunks)]))
    return {"results": results,
            "msgs": [m for r in results for m in r["msgs"]],
            "drift": [d for r in results for d in r["drift"]],
            "stats": [s for r in results for s in r["stats"]],
            "execs": len(execs), "lines": sum(r["lines"] for r in results), "ops": sum(r["ops"] for r in results),
            "faults": sum(r["faults"] for r in results),
            "states": sum(r["states"] for r in results), "distinct": sum(r["distinct"] for r in results),
            "t_driver": max(r["t_driver"] for r in results), "t_tlc": max(r["t_tlc"] for r in results)}


def judge(pid, res, verdict, ext="cmd"):
    """INFRA-tagged messages raise; messages tagged pid become verdict reports (one replay file per key:
    the shortest failing execution seen for that key)."""
    infra = [m for m in res["msgs"] if "INFRA" in m["tags"]]
    if infra:
        m = infra[0]
        ex = res["results"][m["chunk"]]["items"][m["exec"]]
        raise vlib.Infra("generator/driver problem reported by the trace spec: %s %s in execution %r" % (m["check"], m["ctx"], ex))
    mine = [m for m in res["msgs"] if pid in m["tags"]]
    best = {}
    for m in mine:
        fam, ex = res["results"][m["chunk"]]["items"][m["exec"]]
        key = m["check"]
        if key not in best or cost(ex) < cost(best[key][1]):
            best[key] = (m, ex, fam)
    saved = {}
    d = os.path.join(vlib.VERIF, "replays", pid)
    for key, (m, ex, fam) in best.items():
        os.makedirs(d, exist_ok=True)
        fn = os.path.join(d, re.sub(r"[^A-Za-z0-9_.-]", "_", key) + "." + ext)
        with open(fn, "w") as f:
            f.write("# %s (family %s): %s\n" % (key, fam, m["ctx"]))
            f.write("\n".join(ex) + "\nreset\n")
        saved[key] = fn
    counts = {}
    for m in mine:
        counts[m["check"]] = counts.get(m["check"], 0) + 1
    for key, (m, ex, fam) in sorted(best.items()):
        verdict.report(key, "occurrences=%d first-context=%s" % (counts[key], json.dumps(m["ctx"])), saved[key])
    return counts


def load_replay(path):
    execs, cur = [], []
    for ln in open(path):
        ln = ln.strip()
        if not ln or ln.startswith("#"):
            continue
        if ln.startswith("reset"):
            if cur:
                execs.append(("replay", cur))
            cur = []
        else:
            cur.append(ln)
    if cur:
        execs.append(("replay", cur))
    return execs


def op_line(o):
    """operation record (as exported by TLC simulation) -> command line of matrix_driver"""
    op, a, b, r, c, v, w = o["op"], o["a"], o["b"], o["r"], o["c"], o["v"], o["w"]
    sv = " ".join(str(x) for x in v)
    sw = " ".join(str(x) for x in w)
    if op in ("salloc", "dalloc", "sins", "sfind", "sdel", "sq", "dflip", "dget", "dxor", "drwi"):
        return "%s %d %d %d" % (op, a, r, c)
    if op in ("sclear", "sfree", "dfree", "dclear"):
        return "%s %d" % (op, a)
    if op in ("scopy", "s2d", "d2s", "dcopy"):
        return "%s %d %d" % (op, a, b)
    if op in ("scopyrows", "scopyrows_opt", "scopycols", "scopycols_opt", "dcopyrows", "dcopycols"):
        return ("%s %d %d %d %s" % (op, a, b, len(v), sv)).rstrip()
    if op == "sfilled":
        return ("%s %d %d %d %s %d %s" % (op, a, b, len(v), sv, len(w), sw)).replace("  ", " ").rstrip()
    if op == "dset":
        return "dset %d %d %d %d" % (a, r, c, b)
    if op in ("drw", "dempty"):
        return "%s %d %d" % (op, a, r)
    if op == "dcw":
        return "dcw %d %d" % (a, c)
    raise vlib.Infra("cannot render operation %r" % (o,))


def simulate_behaviours(bdir, spec, cfg, num, depth, seed, limit):
    """TLC -simulate on a *Sim module; returns distinct exported behaviours (lists of op records)"""
    r = vlib.run_tlc(os.path.join(vlib.SPEC, spec + ".tla"), os.path.join(vlib.SPEC, cfg), os.path.join(bdir, "sim_" + spec),
                     workers=1, simulate=num, depth=depth + 1, extra=("-seed", str(seed)), timeout=600)
    if r.violated:
        raise vlib.Infra("%s: an invariant of the model failed during simulation:\n%s" % (spec, r.out[-3000:]))
    out, seen = [], set()
    for t in parse_tuples(r.out, "BEH"):
        s = t[0]
        if s in seen:
            continue
        seen.add(s)
        out.append(json.loads(s))
        if len(out) >= limit:
            break
    m = re.search(r"The number of states generated: (\d+)", r.out)
    return out, (int(m.group(1)) if m else 0)
