"""C12: sessions are independent of each other (self-composition on traces + design model)."""
import json
import os
import random
import time

import apicheck
import gen
import vlib

P = gen.P


def life_cycle(rng, sid, small):
    """one session's individually valid call sequence"""
    c = rng.choice([1, 2, 2, 3, 3, 3])
    role = rng.choice(["dec", "dec", "enc"])
    if c == 3:
        k = rng.randint(1, 8 if small else 30)
        r = rng.randint(3, 8 if small else 24)
        n1 = rng.randint(3, min(r, 6))
        p = P(3, k, r, N1=n1, seed=rng.choice([1, 2, 7, 12345, 2147483646, rng.randint(1, 10 ** 9)]),
              length=gen.need_len(3, k, 0) + rng.choice([0, 1]))
    else:
        m = 0 if c == 1 else rng.choice([4, 8])
        n = rng.randint(2, 8 if small else (15 if m == 4 else 40))
        k = rng.randint(1, n - 1)
        p = P(c, k, n - k, m=m, length=gen.need_len(c, k, m) + rng.choice([0, 2]))
    if rng.random() < 0.5:
        # session-specific random contents: with identity payloads two sessions of equal k hold the same symbols
        # and a symbol leaking from one session into another would go unseen
        p = P(p.codec, p.k, p.r, m=p.m, N1=p.N1, seed=p.seed, length=rng.choice(list(range(1, 41)) + [64, 100, 255, 1000]),
              payload="rnd", align=gen.pick_align(rng))
    if role == "enc":
        return _verbose(rng, gen.encode_exec(p, slots=rng.choice(["buf", "null"]), s=sid, both=rng.random() < 0.1))
    keep = rng.uniform(0.5, 1.0)
    sub = [e for e in range(p.n) if rng.random() < keep]
    rng.shuffle(sub)
    api = rng.choice(["recv", "recv", "setavail"])
    if api == "setavail":
        sub = sorted(sub)
    return _verbose(rng, gen.decode_exec(p, sub, api=api, finish=rng.choice([True, True, False]), cb=rng.choice([None, "buf", "null", "mix"]),
                                         probe=rng.choice(["each", "end"]), s=sid, **({"both": True, "builds_before": rng.choice([0, 1, p.r])} if rng.random() < 0.1 else {})))


def _verbose(rng, lines):
    """one session in eight is created with a verbosity of 1 or 2: the setting is process-wide in the library
    (overwritten by every create), and must change nothing but what is printed -- for this session and the others"""
    if rng.random() < 0.125 and lines and lines[0].startswith("create "):
        lines = [lines[0] + " v%d" % rng.choice([1, 2])] + list(lines[1:])
    return lines


def interleave(rng, seqs):
    seqs = [list(s) for s in seqs]
    out = []
    while any(seqs):
        live = [i for i, s in enumerate(seqs) if s]
        i = rng.choice(live)
        # sometimes take a burst from one session
        for _ in range(rng.choice([1, 1, 1, 2, 5])):
            if seqs[i]:
                out.append(seqs[i].pop(0))
    if rng.random() < 0.4:
        out = nest(rng, out)
    return out


def nest(rng, out):
    """re-entrant interleaving: a run of other sessions' calls is made from inside a decoded-source-symbol callback
    of session A (driver command "oncb A N": the next N lines run inside A's next callback; if none fires they run
    right after A's call).  The order of every session's own calls is unchanged."""
    has_cb = set()
    cand = []
    for i, ln in enumerate(out):
        parts = ln.split(" ")
        if parts[0] == "cb":
            has_cb.add(parts[1])
        elif parts[0] in ("recv", "finish", "setavail") and parts[1] in has_cb:
            j = i + 1
            while j < len(out) and j - i <= 12 and out[j].split(" ")[1] != parts[1] and out[j].split(" ")[0] != "srand":
                j += 1
            if j - i - 1 >= 1:
                cand.append((i, j - i - 1))
    if not cand:
        return out
    # the last calls of a decoder are the ones that decode: prefer late candidates
    i, n = rng.choice(cand[len(cand) // 2:])
    return out[:i] + ["oncb %s %d" % (out[i].split(" ")[1], n)] + out[i + 1:i + 1 + n] + [out[i]] + out[i + 1 + n:]


RECYCLE_ENV = {"ASAN_OPTIONS": vlib.ASAN_ENV["ASAN_OPTIONS"] + ":quarantine_size_mb=0:thread_local_quarantine_size_kb=0:max_malloc_fill_size=0"}


def workload(tier, rng):
    groups = []
    ngroups = 700 if tier == "quick" else 12000
    for g in range(ngroups):
        ns = rng.choice([2, 2, 3, 3, 4] if tier == "quick" else [2, 3, 4, 5, 8])
        small = rng.random() < 0.7
        # sometimes the same parameters twice (shared caches keyed by parameters would show)
        seqs = []
        for sid in range(ns):
            st = rng.getstate()
            seqs.append(life_cycle(rng, sid, small))
            if rng.random() < 0.2 and sid + 1 < ns:
                rng2 = random.Random()
                rng2.setstate(st)
                seqs.append(life_cycle(rng2, sid + 1, small))
        seqs = seqs[:ns] if len(seqs) > ns else seqs
        # session ids must be distinct
        fixed = []
        for i, s in enumerate(seqs):
            fixed.append([_resid(ln, i) for ln in s])
        groups.append((interleave(rng, fixed), fixed))
    return groups


def _resid(line, sid):
    parts = line.split(" ")
    if parts[0] in ("srand", "reset"):
        return line
    parts[1] = str(sid)
    return " ".join(parts)


def run(pid, tier):
    t0 = time.time()
    rng = random.Random(vlib.seed() * 131 + 12)
    bdir = vlib.scratch(pid)
    verdict = vlib.Verdict(pid)
    try:
        mc = vlib.run_tlc(os.path.join(vlib.SPEC, "SessionsModel.tla"), os.path.join(vlib.SPEC, "SessionsModel.cfg"),
                          os.path.join(bdir, "mc"), workers=4, xmx="3g", timeout=900)
        if mc.violated or "Model checking completed. No error" not in mc.out:
            raise vlib.Infra("SessionsModel: design-level interference in the specification itself:\n" + mc.out[-3000:])
        drv = vlib.build_driver(bdir)
        groups = workload(tier, rng)
        # (1) interleaved executions: validated against the per-session API specification (and RFC matrices)
        inter = [g[0] for g in groups]
        lines = gen.join(inter).split("\n")
        api = apicheck.run_api(bdir, drv, lines, spec="ApiTrace+PchkTrace")
        for mm in api["msgs"]:
            # (an encoder that fails on an accepted configuration only when other sessions lived before it is this property's business)
            if ("INFRA" not in mm["tags"] or mm["check"] == "driver-codeword") and pid not in mm["tags"]:
                mm["tags"].append(pid)
        apicheck.judge(pid, api, verdict)
        nested = 0
        for r in api["results"]:
            for ln in open(r["trace"]):
                if ln.startswith('{"e":"Reset"') and '"nested":1' in ln:
                    nested += 1
        # (2) self-composition: the same sessions alone, each in a fresh process; observations must be equal
        nchunk = vlib.NCPU
        parts = [groups[i::nchunk] for i in range(nchunk)]
        import concurrent.futures as cf

        def one(idx_part):
            idx, part = idx_part
            if not part:
                return None
            ib = os.path.join(bdir, "ind_inter_%02d.txt" % idx)
            sb = os.path.join(bdir, "ind_solo_%02d.txt" % idx)
            with open(ib, "w") as f:
                f.write(gen.join([g[0] for g in part]))
            solos = []
            for g in part:
                solos += g[1]
            with open(sb, "w") as f:
                f.write(gen.join(solos))
            # the interleaved run recycles freed heap blocks at once and does not scrub fresh ones (no quarantine, no
            # fill): a control block or table that a new session inherits from a released one then still holds the
            # old session's bytes, as it would under a production allocator; the solo runs start from a fresh process
            it = vlib.run_driver(drv, ib, os.path.join(bdir, "ind_inter_%02d.ndjson" % idx), env=RECYCLE_ENV)
            so = vlib.run_driver(drv, sb, os.path.join(bdir, "ind_solo_%02d.ndjson" % idx), env={"OF_DRIVER_FORK_EACH": "1"})
            # plumbing only: group the two traces execution by execution
            def split(path):
                ex, cur = [], []
                for ln in open(path):
                    cur.append(ln)
                    if ln.startswith('{"e":"Reset"'):
                        ex.append(cur)
                        cur = []
                return ex
            ie, se = split(it), split(so)
            merged = os.path.join(bdir, "ind_merged_%02d.ndjson" % idx)
            with open(merged, "w") as f:
                pos = 0
                for gi, g in enumerate(part):
                    f.write('{"e":"Group","phase":"inter"}\n')
                    f.writelines(ie[gi])
                    f.write('{"e":"Group","phase":"solo"}\n')
                    for _ in g[1]:
                        f.writelines(se[pos])
                        pos += 1
                f.write('{"e":"Group","phase":"inter"}\n')
            r = vlib.run_tlc(os.path.join(vlib.SPEC, "IndepTrace.tla"), os.path.join(vlib.SPEC, "IndepTrace.cfg"),
                             os.path.join(bdir, "tlc_ind_%02d" % idx), env={"TRACE": merged}, workers=1, timeout=3000)
            if "Model checking completed" not in r.out or ("Postcondition" in r.out and "is false" in r.out):
                raise vlib.Infra("IndepTrace did not consume %s:\n%s" % (merged, r.out[-2000:]))
            return (idx, part, apicheck.parse_vmsg(r.out), r)

        with cf.ThreadPoolExecutor(nchunk) as ex:
            res = [x for x in ex.map(one, list(enumerate(parts))) if x]
        ind_states = sum(r[3].distinct for r in res)
        ind_trans = sum(r[3].states for r in res)
        for (idx, part, msgs, r) in res:
            for m in msgs:
                gi = m["exec"] - 1
                key = "%s" % m["check"]
                d = os.path.join(vlib.VERIF, "replays", pid)
                os.makedirs(d, exist_ok=True)
                fn = os.path.join(d, key[:80] + ".beh")
                if 0 <= gi < len(part):
                    with open(fn, "w") as f:
                        f.write("# interleaved execution whose per-session observations differ from the solo runs\n")
                        f.write("\n".join(part[gi][0]) + "\nreset\n")
                verdict.report(key, "session %s context %s" % (m["codec"], m["ctx"]), fn)
        rc = verdict.finish()
        nsess = sum(len(g[1]) for g in groups)
        cov = {
            "states": mc.distinct + api["distinct"] + ind_states,
            "transitions": mc.states + api["states"] + ind_trans,
            "traces_validated_against_impl": 2 * len(groups) + nsess,
            "samples": [" ; ".join(groups[0][0])[:1500], " ; ".join(groups[len(groups) // 2][0])[:1500]],
            "evaluations": len(groups),
            "distinct_nontrivial": len({tuple(g[0]) for g in groups if len(g[1]) >= 2}),
            "rule": "groups distinct as interleaved behaviour texts; non-trivial = at least two sessions whose calls are interleaved; each "
                    "group is run interleaved (validated by ApiTrace+PchkTrace) and every session alone in a fresh process (IndepTrace "
                    "compares all per-session observations line by line)",
            "groups_with_calls_nested_in_a_callback": nested,
            "sessions": nsess, "model_states": mc.distinct, "spec_counters": apicheck.stats_summary(api),
            "exhaustive": False,
        }
        vlib.write_evidence(pid, tier, "model_checking", cov, time.time() - t0, len(verdict.violations),
                            ["solo runs use a forked process per execution, so library globals are pristine",
                             "the interleaved runs of the comparison recycle freed heap blocks immediately (ASan without quarantine and fill)",
                             "hidden Reed-Solomon encoder sessions created by the driver are part of both runs"])
        return rc
    finally:
        vlib.cleanup(bdir)


def replay(pid, path):
    """an interleaved behaviour: every API-level rejection counts for C12 (as in run)"""
    bdir = vlib.scratch(pid + "_replay")
    try:
        drv = vlib.build_driver(bdir)
        lines = [l for l in open(path).read().split("\n") if not l.startswith("#")]
        api = apicheck.run_api(bdir, drv, lines, nproc=1, spec="ApiTrace+PchkTrace")
        for mm in api["msgs"]:
            if "INFRA" not in mm["tags"] and pid not in mm["tags"]:
                mm["tags"].append(pid)
        verdict = vlib.Verdict(pid)
        apicheck.judge(pid, api, verdict)
        return verdict.finish()
    finally:
        vlib.cleanup(bdir)
