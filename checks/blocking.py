"""C20: eperftool's of_compute_blocking_struct follows RFC 5052.

blocking_driver (which #includes the staged blocking_struct.c) records what the real function
stores for chosen (B, L, E); TLC validates every record against spec/Blocking.tla through
spec/BlockingTrace.tla, and checks the definition itself with spec/BlockingModel.tla.
Python only chooses inputs, builds, runs and collects."""
import concurrent.futures as cf
import json
import os
import random
import re
import shutil
import time

import apicheck
import vlib

U32 = 2 ** 32 - 1
SPECF = os.path.join(vlib.SPEC, "BlockingTrace.tla")
CFGF = os.path.join(vlib.SPEC, "BlockingTrace.cfg")
DRIVER = os.path.join(vlib.HARNESS, "blocking_driver.c")


# ------------------------------------------------------------------ inputs

def grid_commands(tier):
    """exhaustive part: 'g B E L0 COUNT' = all L in L0 .. L0+COUNT-1 for that (B, E)"""
    tmax = 300 if tier == "quick" else 2000
    cmds = [("g %d 1 1 %d" % (b, tmax), tmax) for b in range(1, tmax + 1)]          # E = 1: L = T
    bmax, lmax = (60, 600) if tier == "quick" else (300, 3000)
    for e in (2, 3, 7, 64):
        cmds += [("g %d %d 1 %d" % (b, e, lmax), lmax) for b in range(1, bmax + 1)]
    return cmds, {"E=1": [tmax, tmax], "E in {2,3,7,64}": [bmax, lmax]}


def clamp(v):
    return max(1, min(U32, int(v)))


def wide_commands(tier, rng):
    want = 20000 if tier == "quick" else 200000
    tuples = [
        (1, 4030357263, 1),                      # DESIGN F10: N = 4030357263 >= 2^31
        (1, 2 ** 31, 1), (1, 2 ** 31 - 1, 1), (1, 2 ** 31 + 1, 1), (1, U32, 1), (2, U32, 1), (3, U32, 1), (2, U32 - 1, 1),
        (U32, U32, 1), (U32, U32, U32), (U32, 1, U32), (1, 1, 1), (1, U32, U32), (U32 - 1, U32, 1), (2 ** 31, U32, 1),
        (1, U32, 2), (1, U32 - 1, 2), (65536, U32, 1), (65535, U32, 1), (65537, U32, 1), (65536, 2 ** 32 - 65536, 1),
    ]
    for _ in range(40):                          # more of the N >= 2^31 region (needs B = 1, T >= 2^31)
        tuples.append((1, rng.randrange(2 ** 31, U32 + 1), 1))
    lu = lambda hi: clamp(2 ** rng.uniform(0, hi))
    while len(tuples) < want:
        c = rng.random()
        if c < 0.15:
            tuples.append((rng.randrange(1, U32 + 1), rng.randrange(1, U32 + 1), rng.randrange(1, U32 + 1)))
        elif c < 0.35:
            tuples.append((lu(32), lu(32), lu(32)))
        elif c < 0.60:
            # L / E just below, at, just above an integer
            e = lu(rng.choice([8, 16, 24, 31]))
            m = rng.randrange(1, max(2, U32 // e + 1))
            l = clamp(m * e + rng.choice([-2, -1, 0, 1, 2]))
            t = -(-l // e)
            b = rng.choice([1, 2, clamp(t - 1), t, clamp(t + 1), clamp(t // 2), clamp(t // 2 + 1), clamp(t // 3), lu(32), lu(16)])
            if b == 1 and t >= 2 ** 31 and rng.random() < 0.9:
                b = 2                            # keep the N >= 2^31 region to the dedicated tuples above
            tuples.append((b, l, e))
        elif c < 0.85:
            # T / B just below, at, just above an integer; T / N with small and large remainders
            b = lu(rng.choice([4, 10, 16, 24, 31]))
            m = rng.randrange(1, max(2, min(U32 // b, 2 ** rng.randrange(1, 31)) + 1))
            t = clamp(m * b + rng.choice([-1, 0, 1, b // 2, -(b // 2)]))
            e = rng.choice([1, 1, 2, 3, lu(8)])
            l = t * e - rng.randrange(0, e)
            if l > U32:
                e, l = 1, t
            tuples.append((b, clamp(l), e))
        else:
            t = lu(32)
            tuples.append((lu(12), t, 1))
    return ["w %d %d %d" % t for t in tuples], len(set(tuples))


def command_files(tier, rng, bdir):
    grid, gdesc = grid_commands(tier)
    wide, ndist = wide_commands(tier, rng)
    nch = vlib.NCPU
    files = []
    chunks = [[] for _ in range(nch)]
    sizes = [0] * nch
    for (c, w) in sorted(grid, key=lambda x: -x[1]):
        i = sizes.index(min(sizes))
        chunks[i].append(c)
        sizes[i] += w
    for k, c in enumerate(wide):
        chunks[k % nch].append(c)
    for i, ch in enumerate(chunks):
        if not ch:
            continue
        p = os.path.join(bdir, "chunk%02d.cmd" % i)
        with open(p, "w") as f:
            f.write("\n".join(ch) + "\n")
        files.append(("chunk%02d" % i, p))
    info = {"grid_tuples": sum(w for (_, w) in grid), "grid": gdesc, "wide_tuples": len(wide), "wide_distinct": ndist}
    return files, info


# ------------------------------------------------------------------ running

def normalize_vmsg(out):
    """TLC wraps long tuples over several lines; put every VMSG tuple on one line"""
    def one(m):
        t = re.sub(r"\s+", " ", m.group(0))
        return "\n" + t.replace('<< "VMSG"', '<<"VMSG"').replace(" >>", ">>") + "\n"
    return re.sub(r'<<\s*"VMSG".*?>>', one, out, flags=re.S)


def build(bdir):
    src = vlib.stage_sources(bdir)
    ep = os.path.join(bdir, "eperftool")
    if not os.path.isdir(ep):
        raise vlib.Infra("applis/eperftool missing in %s" % vlib.REPO)
    # eperftool.h includes "../../src/lib_common/..." relative to its own directory: resolve it through lib_common
    return vlib.build_prog(bdir, "blocking_driver", DRIVER, [], asan=True, hooks=True,
                           extra=["-I" + ep, "-I" + os.path.join(src, "lib_common")])


def run_one(args):
    name, cmdp, drv, bdir = args
    trc = os.path.join(bdir, name + ".ndjson")
    t0 = time.time()
    vlib.run_driver(drv, cmdp, trc, timeout=900)
    t1 = time.time()
    nlines = sum(1 for _ in open(trc))
    r = vlib.run_tlc(SPECF, CFGF, os.path.join(bdir, "tlc_" + name), env={"TRACE": trc}, workers=1, timeout=1500)
    consumed = ("Postcondition" not in r.out or "is false" not in r.out) and "Model checking completed" in r.out
    if not consumed:
        raise vlib.Infra("trace %s not fully consumed by BlockingTrace:\n%s" % (trc, r.out[-3000:]))
    msgs = apicheck.parse_vmsg(normalize_vmsg(r.out))
    for m in msgs:
        m["file"] = name
    return {"name": name, "cmd": cmdp, "trace": trc, "lines": nlines, "states": r.states, "distinct": r.distinct,
            "msgs": msgs, "t_driver": t1 - t0, "t_tlc": time.time() - t1}


def undigits(d):
    return sum(x << (15 * i) for i, x in enumerate(d))


def describe(rec, row):
    """(command reproducing the failing call, human description) of record rec / row (1-based, 0 for 'w')"""
    if rec["e"] == "w":
        b, l, e = undigits(rec["B"]), undigits(rec["L"]), undigits(rec["E"])
        out = tuple(undigits(rec[k]) for k in ("N", "I", "Al", "As"))
        return "w %d %d %d" % (b, l, e), "B=%d L=%d E=%d -> (N,I,A_large,A_small)=%s" % (b, l, e, out)
    if rec["e"] == "crash":
        b, l, e = undigits(rec["B"]), undigits(rec["L"]), undigits(rec["E"])
        return "w %d %d %d" % (b, l, e), "B=%d L=%d E=%d -> crash (signal) inside of_compute_blocking_struct" % (b, l, e)
    l = rec["L0"] + row - 1
    return ("g %d %d %d 1" % (rec["B"], rec["E"], l),
            "B=%d L=%d E=%d -> (N,I,A_large,A_small)=%s" % (rec["B"], l, rec["E"], tuple(rec["rows"][row - 1])))


def judge(pid, results, verdict, given=None):
    infra = [m for r in results for m in r["msgs"] if "INFRA" in m["tags"]]
    if infra:
        raise vlib.Infra("driver/protocol/spec self-check problem reported by BlockingTrace: %r" % infra[:3])
    saved = {}
    nfail = 0
    for r in results:
        mine = [m for m in r["msgs"] if pid in m["tags"]]
        if not mine:
            continue
        want = {m["line"] for m in mine}
        recs = {}
        with open(r["trace"]) as f:
            for i, ln in enumerate(f, 1):
                if i in want:
                    recs[i] = json.loads(ln)
        for m in mine:
            key = m["check"] + ("/" + m["ctx"] if m["ctx"] else "")
            nfail += m["codec"]                      # number of failing rows of that record
            cmd, what = describe(recs[m["line"]], m["exec"])
            if key not in saved:
                if given:
                    saved[key] = given
                else:
                    d = os.path.join(vlib.VERIF, "replays", pid)
                    os.makedirs(d, exist_ok=True)
                    fn = os.path.join(d, re.sub(r"[^A-Za-z0-9_.-]", "_", key.replace(">=", "ge").replace("<", "lt")) + ".cmd")
                    with open(fn, "w") as f:
                        f.write("# %s: %s\n%s\n" % (key, what, cmd))
                    saved[key] = fn
            verdict.report(key, "check=%s %s (%d failing tuple(s) in that record)" % (m["check"], what, m["codec"]),
                           saved[key])
    return nfail


def run(pid, tier):
    t0 = time.time()
    rng = random.Random(vlib.seed())
    bdir = vlib.scratch(pid)
    verdict = vlib.Verdict(pid)
    try:
        drv = build(bdir)
        files, info = command_files(tier, rng, bdir)
        with cf.ThreadPoolExecutor(vlib.NCPU + 1) as ex:
            # the definition itself: consequences listed by the property, int/Nat64 transcriptions agree
            fmc = ex.submit(vlib.run_tlc, os.path.join(vlib.SPEC, "BlockingModel.tla"),
                            os.path.join(vlib.SPEC, "BlockingModel.cfg"), os.path.join(bdir, "mc"), None, 2, 1200)
            results = list(ex.map(run_one, [(n, p, drv, bdir) for (n, p) in files]))
            mc = fmc.result()
        if mc.violated or "Model checking completed. No error" not in mc.out:
            raise vlib.Infra("BlockingModel: the definition itself violates a lemma:\n" + mc.out[-3000:])
        nfail = judge(pid, results, verdict)
        rc = verdict.finish()
        samples = []
        for r in results[:2]:
            ng = nw = 0
            with open(r["trace"]) as f:
                for ln in f:
                    rec = json.loads(ln)
                    if rec["e"] == "g" and ng < 1:
                        ng += 1
                        samples.append(describe(rec, len(rec["rows"]))[1])
                    elif rec["e"] == "w" and nw < 2:
                        nw += 1
                        samples.append(describe(rec, 0)[1])
                    if ng >= 1 and nw >= 2:
                        break
        ntuples = info["grid_tuples"] + info["wide_tuples"]
        cov = {
            "states": mc.distinct + sum(r["distinct"] for r in results),
            "transitions": mc.states + sum(r["states"] for r in results),
            "traces_validated_against_impl": ntuples,
            "samples": samples[:6],
            "evaluations": ntuples,
            "distinct_nontrivial": info["grid_tuples"] + info["wide_distinct"],
            "rule": "one evaluation = one recorded call of the real of_compute_blocking_struct(B, L, E) whose stored "
                    "(N, I, A_large, A_small) TLC compared with Blocking.tla; distinct = distinct (B, L, E) tuples",
            "trace_records": sum(r["lines"] for r in results),
            "grid_exhaustive_ranges_B_L": info["grid"],
            "grid_tuples": info["grid_tuples"],
            "sampled_tuples_up_to_2^32-1": info["wide_tuples"],
            "failing_tuples": nfail,
            "model_points_exhaustive": mc.distinct,
            "exhaustive": False,
            "exhaustive_part": "all 1 <= T, B <= %d with E = 1 (and the listed E > 1 grids) were enumerated completely; "
                               "the 32-bit range is sampled" % info["grid"]["E=1"][0],
        }
        vlib.write_evidence(pid, tier, "model_checking", cov, time.time() - t0, len(verdict.violations), [
            "Blocking.tla is the statement of C20 / RFC 5052 9.1 over exact integers; BlockingModel.tla checks on a "
            "small exhaustive grid that the listed consequences follow and that the native-integer and the Nat64 "
            "transcription agree; every Nat64 division is re-checked through q*b + r = a, r < b where it is used",
            "I is held to what the statement says (0 <= I <= N and I*A_large + (N-I)*A_small = T), i.e. it is free when N divides T",
            "inputs restricted to B, L, E >= 1 as the property states",
        ])
        return rc
    finally:
        vlib.cleanup(bdir)


def replay(pid, path):
    bdir = vlib.scratch(pid + "_replay")
    try:
        drv = build(bdir)
        cmdp = os.path.join(bdir, "replay.cmd")
        shutil.copy(path, cmdp)
        res = run_one(("replay", cmdp, drv, bdir))
        verdict = vlib.Verdict(pid)
        judge(pid, [res], verdict, given=path)
        return verdict.finish()
    finally:
        vlib.cleanup(bdir)
