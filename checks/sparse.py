"""C17: the sparse GF(2) matrix module (of_matrix_sparse.c, of_matrix_convert.c) behaves as a set of
(row, column) pairs under any sequence of its exported operations; no operation touches freed memory;
free releases everything.

Oracle: spec/SparseMatrix.tla evaluated by TLC.
 (a) exhaustive model checking of the design-level model (abstract set E + linked lists + allocator with
     BlockSize = 2) over all operation sequences to a bounded depth; the variant "clear keeps the free list"
     must violate NoDangling (the invariant is not vacuous);
 (b) trace validation (spec/SparseTrace.tla): operation sequences are applied to the REAL module by
     harness/matrix_driver.c (ASan + malloc ledger, one forked child per faulting sequence) and every
     recorded step is matched with Apply of the specification; the logged projection (both traversals in
     both directions, find for every position, return values) must be the projection of E.
Python only generates operation sequences and orchestrates."""
import itertools
import os
import random
import time

import mxcommon
import vlib

NS, ND = 4, 4


# ------------------------------------------------------------------ generators (no expected values here)

def gen_exhaustive(length):
    """every sequence of exactly 1..length operations over a fixed alphabet on 2x2 matrices"""
    alpha = []
    for r in range(2):
        for c in range(2):
            alpha.append("sins 0 %d %d" % (r, c))
            alpha.append("sdel 0 %d %d" % (r, c))
    alpha += ["sclear 0", "scopy 0 1", "scopy 1 0", "scopyrows 0 1 2 1 0", "scopycols 1 0 2 1 1", "sins 1 1 0"]
    out = []
    for n in range(1, length + 1):
        for seq in itertools.product(alpha, repeat=n):
            out.append(("exhaustive", ["salloc 0 2 2", "salloc 1 2 2"] + list(seq) + ["sfree 0", "sfree 1"]))
    return out, len(alpha)


class Gen:
    """random operation sequences; tracks only what the command text itself says (dimensions, and whether a
    slot has been the target of any operation since it was allocated)"""

    def __init__(self, rng, dims, fresh_dest):
        self.rng = rng
        self.dims = dims
        self.fresh_dest = fresh_dest      # copies only into matrices allocated just before, no explicit clear
        self.sp = {}                      # slot -> (R, C)
        self.dn = {}
        self.fresh = set()                # sparse slots never written since allocation
        self.lines = []

    def emit(self, s):
        self.lines.append(s)

    def alloc_sparse(self, dim=None, slot=None):
        free = [s for s in range(NS) if s not in self.sp]
        if slot is None:
            if not free:
                return None
            slot = self.rng.choice(free)
        R, C = dim or self.rng.choice(self.dims)
        self.emit("salloc %d %d %d" % (slot, R, C))
        self.sp[slot] = (R, C)
        self.fresh.add(slot)
        return slot

    def free_sparse(self, s):
        self.emit("sfree %d" % s)
        del self.sp[s]
        self.fresh.discard(s)

    def dest_for(self, need_r, need_c, exclude):
        """a destination with at least need_r x need_c; in fresh_dest mode a newly allocated one"""
        if self.fresh_dest:
            cand = [s for s in self.sp if s != exclude and s in self.fresh and self.sp[s][0] >= need_r and self.sp[s][1] >= need_c]
            if cand and self.rng.random() < 0.3:
                return self.rng.choice(cand)
            free = [s for s in range(NS) if s not in self.sp]
            if not free:
                victim = self.rng.choice([s for s in self.sp if s != exclude])
                self.free_sparse(victim)
                free = [victim]
            R = need_r + self.rng.choice([0, 0, 1, 2])
            C = need_c + self.rng.choice([0, 0, 1, 3])
            return self.alloc_sparse((R, C), self.rng.choice(free))
        cand = [s for s in self.sp if s != exclude and self.sp[s][0] >= need_r and self.sp[s][1] >= need_c]
        return self.rng.choice(cand) if cand else None

    def step(self):
        rng = self.rng
        if not self.sp or (len(self.sp) < 2 and rng.random() < 0.5) or (len(self.sp) < NS and rng.random() < 0.04):
            self.alloc_sparse()
            return
        a = rng.choice(list(self.sp))
        R, C = self.sp[a]
        k = rng.random()
        if k < 0.36:
            self.emit("sins %d %d %d" % (a, rng.randrange(R), rng.randrange(C)))
            self.fresh.discard(a)
        elif k < 0.50:
            self.emit("sdel %d %d %d" % (a, rng.randrange(R), rng.randrange(C)))
            self.fresh.discard(a)
        elif k < 0.55:
            self.emit("sfind %d %d %d" % (a, rng.randrange(R), rng.randrange(C)))
        elif k < 0.59:
            self.emit("sq %d %d %d" % (a, rng.randrange(R), rng.randrange(C)))
        elif k < 0.62:
            if not self.fresh_dest:
                self.emit("sclear %d" % a)
                self.fresh.discard(a)
        elif k < 0.66:
            b = self.dest_for(R, C, a)
            if b is not None:
                self.emit("scopy %d %d" % (a, b))
                self.fresh.discard(b)
        elif k < 0.74:
            opt = rng.random() < 0.4
            b = self.dest_for(1, C, a)
            if b is not None and (not opt or b in self.fresh):
                Rb = self.sp[b][0]
                self.emit("scopyrows%s %d %d %d %s" % ("_opt" if opt else "", a, b, Rb, " ".join(str(rng.randrange(R)) for _ in range(Rb))))
                self.fresh.discard(b)
        elif k < 0.82:
            opt = rng.random() < 0.4
            b = self.dest_for(R, 1, a)
            if b is not None and (not opt or b in self.fresh):
                Cb = self.sp[b][1]
                self.emit("scopycols%s %d %d %d %s" % ("_opt" if opt else "", a, b, Cb, " ".join(str(rng.randrange(C)) for _ in range(Cb))))
                self.fresh.discard(b)
        elif k < 0.87:
            cand = [s for s in self.sp if s != a and s in self.fresh]
            if not cand and len(self.sp) < NS:
                cand = [self.alloc_sparse()]
            if cand:
                b = rng.choice(cand)
                Rb, Cb = self.sp[b]
                inj = rng.random() < 0.5 and Rb >= R and Cb >= C
                ir = rng.sample(range(Rb), R) if inj else [rng.randrange(Rb) for _ in range(R)]
                ic = rng.sample(range(Cb), C) if inj else [rng.randrange(Cb) for _ in range(C)]
                self.emit("sfilled %d %d %d %s %d %s" % (a, b, R, " ".join(map(str, ir)), C, " ".join(map(str, ic))))
                self.fresh.discard(b)
        elif k < 0.91:
            # sparse -> dense
            cand = [d for d in self.dn if self.dn[d][0] >= R and self.dn[d][1] >= C]
            if not cand:
                free = [d for d in range(ND) if d not in self.dn]
                if not free:
                    d = rng.choice(list(self.dn))
                    self.emit("dfree %d" % d)
                    del self.dn[d]
                    free = [d]
                d = rng.choice(free)
                self.dn[d] = (R + rng.choice([0, 1]), C + rng.choice([0, 2]))
                self.emit("dalloc %d %d %d" % (d, self.dn[d][0], self.dn[d][1]))
                cand = [d]
            self.emit("s2d %d %d" % (a, rng.choice(cand)))
        elif k < 0.96:
            # dense -> sparse (flip a few bits of the dense matrix first so that it is a new input)
            if self.dn:
                d = rng.choice(list(self.dn))
                Rd, Cd = self.dn[d]
                for _ in range(rng.randrange(0, 4)):
                    self.emit("dflip %d %d %d" % (d, rng.randrange(Rd), rng.randrange(Cd)))
                b = self.dest_for(Rd, Cd, None)
                if b is not None:
                    self.emit("d2s %d %d" % (d, b))
                    self.fresh.discard(b)
        else:
            if len(self.sp) > 1:
                self.free_sparse(a)

    def finish(self):
        for s in list(self.sp):
            if self.rng.random() < 0.8:
                self.free_sparse(s)
        return self.lines


def gen_random(rng, count, nops, dims, fresh_dest, family):
    out = []
    for _ in range(count):
        g = Gen(rng, dims, fresh_dest)
        while len(g.lines) < nops:
            g.step()
        out.append((family, g.finish()))
    return out


def gen_chaining(rng, n, nops):
    """more than 1024 live entries in one matrix (second allocation block of the real module, BlockSize = 1024
    in the trace model), then deletions / re-insertions / copies around the block boundary"""
    lines = []
    pos = [(r, c) for r in range(n) for c in range(n)]
    rng.shuffle(pos)
    load = pos[:1024 + (n * n - 1024) // 2]
    lines.append("dalloc 0 %d %d" % (n, n))
    lines.append("dload 0 %d %s %s" % (len(load), " ".join(str(p[0]) for p in load), " ".join(str(p[1]) for p in load)))
    lines.append("salloc 0 %d %d" % (n, n))
    lines.append("d2s 0 0")
    rest = pos[len(load):]
    for i in range(nops):
        k = rng.random()
        if k < 0.4 and rest:
            p = rest.pop()
            lines.append("sins 0 %d %d" % p)
            load.append(p)
        elif k < 0.8 and load:
            p = load.pop(rng.randrange(len(load)))
            lines.append("sdel 0 %d %d" % p)
            rest.append(p)
        elif k < 0.9:
            lines.append("sq 0 %d %d" % (rng.randrange(n), rng.randrange(n)))
        else:
            lines.append("sfind 0 %d %d" % (rng.randrange(n), rng.randrange(n)))
    lines.append("salloc 1 %d %d" % (n, n + 1))
    lines.append("scopy 0 1")
    lines.append("salloc 2 %d %d" % (n + 1, n))
    lines.append("scopycols_opt 1 2 %d %s" % (n, " ".join(str(rng.randrange(n + 1)) for _ in range(n))))
    lines.append("sfree 0")
    lines.append("sfree 1")
    lines.append("sfree 2")
    return [("block-chaining", [ln for ln in lines if ln])]


def gen_refill(rng, n, variant):
    """a matrix that already owns allocation blocks is emptied (clear, or being the destination of a copy /
    conversion) and then filled beyond one block (1024 entries) again: recycled blocks, free list and block
    chain of the emptied matrix are all in use at once"""
    lines = []
    pos = [(r, c) for r in range(n) for c in range(n)]
    rng.shuffle(pos)
    first = pos[:[3, 200, 1030][variant % 3]]
    lines.append("salloc 0 %d %d" % (n, n))
    lines.append("dalloc 0 %d %d" % (n, n))
    if len(first) > 50:
        lines.append("dload 0 %d %s %s" % (len(first), " ".join(str(p[0]) for p in first), " ".join(str(p[1]) for p in first)))
        lines.append("d2s 0 0")
    else:
        for p in first:
            lines.append("sins 0 %d %d" % p)
    how = (variant // 3) % 3
    if how == 0:
        lines.append("sclear 0")
    elif how == 1:
        lines.append("salloc 1 %d %d" % (n, n))
        lines.append("sins 1 0 0")
        lines.append("scopy 1 0")
    # how == 2: the conversion below empties the destination itself
    rng.shuffle(pos)
    second = pos[:1024 + rng.randint(1, n * n - 1024)]
    lines.append("dfree 0")
    lines.append("dalloc 0 %d %d" % (n, n))
    lines.append("dload 0 %d %s %s" % (len(second), " ".join(str(p[0]) for p in second), " ".join(str(p[1]) for p in second)))
    lines.append("d2s 0 0")
    rest = [p for p in pos if p not in set(second)]
    for _ in range(8):
        if rest and rng.random() < 0.6:
            lines.append("sins 0 %d %d" % rest.pop())
        else:
            lines.append("sdel 0 %d %d" % second[rng.randrange(len(second))])
    lines.append("sclear 0")
    for p in pos[:20]:
        lines.append("sins 0 %d %d" % p)
    lines.append("sq 0 %d %d" % (rng.randrange(n), rng.randrange(n)))
    lines.append("sfree 0")
    if how == 1:
        lines.append("sfree 1")
    return [("clear-and-refill", lines)]


def from_simulation(bdir, num, depth, limit):
    behs, nstates = mxcommon.simulate_behaviours(bdir, "SparseSim", "SparseSim.cfg", num, depth, vlib.seed(), limit)
    out = []
    for b in behs:
        lines = [mxcommon.op_line(o) for o in b]
        live = set()
        for o in b:
            if o["op"] == "salloc":
                live.add(o["a"])
            elif o["op"] == "sfree":
                live.discard(o["a"])
        out.append(("tlc-simulation", lines + ["sfree %d" % s for s in sorted(live)]))
    return out, nstates


# ------------------------------------------------------------------------------------------------ check

def model_checking(bdir, tier):
    cfgs = ["SparseMatrix.cfg"] if tier == "quick" else ["SparseMatrix_thorough.cfg", "SparseMatrix_thorough3x3.cfg"]
    runs = []
    for cfg in cfgs:
        mc = vlib.run_tlc(os.path.join(vlib.SPEC, "SparseMatrix.tla"), os.path.join(vlib.SPEC, cfg), os.path.join(bdir, "mc_" + cfg[:-4]),
                          workers=vlib.NCPU, xmx="6g", timeout=2400)
        if mc.violated or "Model checking completed. No error" not in mc.out:
            raise vlib.Infra("SparseMatrix (%s): the design-level model violates one of its own invariants:\n%s" % (cfg, mc.out[-3000:]))
        runs.append((cfg, mc))
    neg = vlib.run_tlc(os.path.join(vlib.SPEC, "SparseMatrix.tla"), os.path.join(vlib.SPEC, "SparseMatrix_keepfree.cfg"),
                       os.path.join(bdir, "mcneg"), workers=2, xmx="1g", timeout=600, extra=("-noGenerateSpecTE",))
    if "Invariant NoDangling is violated" not in neg.out:
        raise vlib.Infra("SparseMatrix: the variant 'clear keeps the free list' does not violate NoDangling "
                         "(the invariant would be vacuous):\n" + neg.out[-2000:])
    return runs, neg


def make_execs(bdir, tier, rng):
    q = tier == "quick"
    execs, alpha = gen_exhaustive(3 if q else 4)
    small = [(1, 1), (1, 3), (2, 2), (2, 3), (3, 2), (3, 3), (3, 4), (4, 2)]
    medium = small + [(4, 7), (5, 5), (6, 8), (2, 33), (6, 40), (8, 6), (3, 32), (2, 64), (5, 96), (33, 32)]   # incl. widths = whole words
    execs += gen_random(rng, 300 if q else 3000, 30, small, True, "random-fresh-destination")
    execs += gen_random(rng, 300 if q else 3000, 30, small, False, "random-unrestricted")
    execs += gen_random(rng, 120 if q else 1500, 60, medium, True, "random-fresh-destination")
    execs += gen_random(rng, 120 if q else 1500, 60, medium, False, "random-unrestricted")
    for i in range(2 if q else 12):
        execs += gen_chaining(rng, 33 + (i % 3), 12 if q else 40)
    for i in range(3 if q else 18):
        execs += gen_refill(rng, 33 + (i % 3), i + (rng.randrange(9) if not q else 3 * rng.randrange(3)))
    sim, simstates = from_simulation(bdir, 20 if q else 300, 40, 60 if q else 1500)
    execs += sim
    return execs, alpha, simstates


def run(pid, tier):
    t0 = time.time()
    rng = random.Random(vlib.seed())
    bdir = vlib.scratch("%s_%d" % (pid, os.getpid()))      # concurrent runs of the same check do not share scratch
    verdict = vlib.Verdict(pid)
    try:
        mcs, neg = model_checking(bdir, tier)
        mc_distinct = sum(m.distinct for _, m in mcs)
        mc_states = sum(m.states for _, m in mcs)
        t1 = time.time()
        drv = mxcommon.build(bdir)
        execs, alpha, simstates = make_execs(bdir, tier, rng)
        t2 = time.time()
        res = mxcommon.run_chunks(bdir, drv, execs, "SparseTrace", tag="sp", xmx="2g")
        counts = mxcommon.judge(pid, res, verdict)
        rc = verdict.finish()
        fam = {}
        for f, ex in execs:
            fam[f] = fam.get(f, 0) + 1
        opcount = {}
        for _, ex in execs:
            for ln in ex:
                o = ln.split(" ", 1)[0]
                opcount[o] = opcount.get(o, 0) + 1
        samples = []
        for f in sorted(fam):
            ex = next(e for ff, e in execs if ff == f)
            samples.append("%s: %s" % (f, " ; ".join(x if len(x) < 90 else x[:87] + "..." for x in ex[:14])))
        cov = {
            "states": mc_distinct + res["distinct"],
            "transitions": mc_states + res["states"] + simstates,
            "traces_validated_against_impl": res["execs"],
            "samples": samples,
            "evaluations": res["ops"],
            "distinct_nontrivial": len({tuple(ex) for _, ex in execs}),
            "rule": "an evaluation is one recorded operation of the real module whose complete projection (find for every "
                    "position, forward and backward row and column traversals, return value) was compared by TLC with the "
                    "set model; executions are distinct as command sequences",
            "exhaustive": False,
            "model_checking": {"runs": [{"config": c, "distinct_states": m.distinct, "states_generated": m.states} for c, m in mcs],
                               "block_size_in_model": 2,
                               "negative_control_keepfree_violates_NoDangling": True},
            "exhaustive_short_sequences": {"alphabet": alpha, "max_length": 3 if tier == "quick" else 4, "executions": fam.get("exhaustive", 0)},
            "executions_by_family": fam,
            "operations_issued": opcount,
            "operations_validated": res["ops"],
            "executions_ended_by_memory_fault": res["faults"],
            "violation_keys": counts,
            "trace_lines": res["lines"],
            "drift_lines": len(res["drift"]),
            "tlc_simulation_states": simstates,
            "timing_s": {"model_checking": round(t1 - t0, 1), "build_and_generate": round(t2 - t1, 1),
                         "driver_max_chunk": round(res["t_driver"], 1), "tlc_max_chunk": round(res["t_tlc"], 1)},
        }
        vlib.write_evidence(pid, tier, "model_checking", cov, time.time() - t0, len(verdict.violations), [
            "SparseMatrix.tla states the contract: in-range use as in Enabled (destination large enough, index arrays of the "
            "destination's row/column count, no aliasing of source and destination)",
            "of_mod2sparse_copyrows_opt / copycols_opt / copy_filled_matrix do not clear the destination; they are "
            "exercised only with an empty destination (contract for a non-empty one is not documented); "
            "copyrows_opt only with __parsing = NULL",
            "trace validation uses BlockSize = 1024 (unconditional #define); tiny blocks are explored in the model only",
            "sanitizer-visible faults only (AddressSanitizer, clang); live allocation count per matrix is reported as DRIFT, "
            "only 'live after free = 0' is a C17 obligation",
        ])
        for d in res["drift"][:5]:
            print("DRIFT module=SparseMatrix %s" % d)
        return rc
    finally:
        vlib.cleanup(bdir)


def replay(pid, path):
    bdir = vlib.scratch("%s_replay_%d" % (pid, os.getpid()))
    try:
        drv = mxcommon.build(bdir)
        res = mxcommon.run_chunks(bdir, drv, mxcommon.load_replay(os.path.abspath(path)), "SparseTrace", tag="rp", nproc=1)
        verdict = vlib.Verdict(pid)
        mxcommon.judge(pid, res, verdict)
        return verdict.finish()
    finally:
        vlib.cleanup(bdir)
