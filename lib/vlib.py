"""Shared machinery for the /verif checks: build of the instrumented library and
drivers from /repo's working tree, TLC runner, evidence and verdict handling."""
import concurrent.futures as cf
import glob
import json
import os
import re
import shutil
import subprocess
import sys
import time

VERIF = os.path.dirname(os.path.dirname(os.path.abspath(__file__)))
REPO = os.environ.get("VERIF_REPO", "/repo")
SPEC = os.path.join(VERIF, "spec")
HARNESS = os.path.join(VERIF, "harness")
TLA_CP = "/opt/veriftools/tla/tla2tools.jar:/opt/veriftools/tla/CommunityModules-deps.jar"
NCPU = int(os.environ.get("VERIF_JOBS", "16"))


class Infra(Exception):
    """Anything that prevents a verdict (never a VIOLATION)."""


def log(*a):
    print(*a, file=sys.stderr, flush=True)


def seed():
    try:
        return int(os.environ.get("VERIF_SEED", "1"))
    except ValueError:
        return 1


# --------------------------------------------------------------------- build

FALLBACK_CONFIG = """#ifndef OF_BUILD_CONFIG_H
#define OF_BUILD_CONFIG_H
#define OF_USE_ENCODER
#define OF_USE_DECODER
#define OF_USE_REED_SOLOMON_CODEC
#define OF_USE_REED_SOLOMON_2_M_CODEC
#define OF_USE_LDPC_STAIRCASE_CODEC
#define OF_USE_2D_PARITY_MATRIX_CODEC
#define OF_USE_LINEAR_BINARY_CODES_UTILS
#define OF_USE_GALOIS_FIELD_CODES_UTILS
#define ML_DECODING
#endif
"""


def scratch(tag):
    d = os.path.join(VERIF, "build", tag)
    shutil.rmtree(d, ignore_errors=True)
    os.makedirs(d)
    return d


def cleanup(d):
    if os.environ.get("VERIF_KEEP"):
        return
    shutil.rmtree(d, ignore_errors=True)


def _cc(args):
    r = subprocess.run(args, capture_output=True, text=True)
    if r.returncode != 0:
        raise Infra("compile failed: %s\n%s" % (" ".join(args), r.stderr[-3000:]))


def stage_sources(bdir):
    """Copy /repo/src (and eperftool's blocking_struct) into the scratch dir so
    that the build sees exactly the current working tree."""
    src = os.path.join(bdir, "src")
    shutil.copytree(os.path.join(REPO, "src"), src)
    cfgh = os.path.join(src, "lib_common", "of_build_config.h")
    if not os.path.exists(cfgh):
        with open(cfgh, "w") as f:
            f.write(FALLBACK_CONFIG)
    ap = os.path.join(REPO, "applis", "eperftool")
    if os.path.isdir(ap):
        shutil.copytree(ap, os.path.join(bdir, "eperftool"))
        # second copy at the repository's relative position (its sources include "../../src/...")
        shutil.copytree(ap, os.path.join(bdir, "applis", "eperftool"))
    return src


def build_lib(bdir, asan=True, hooks=True, opt="-O1"):
    """Compile every library source of the staged tree; returns list of objects."""
    src = os.path.join(bdir, "src")
    if not os.path.isdir(src):
        src = stage_sources(bdir)
    files = []
    for sub in ("lib_common", "lib_stable"):
        files += glob.glob(os.path.join(src, sub, "**", "*.c"), recursive=True)
    files.sort()
    odir = os.path.join(bdir, "obj_%s_%s" % ("asan" if asan else "plain", "h" if hooks else "n"))
    os.makedirs(odir, exist_ok=True)
    flags = ["clang", "-c", opt, "-g", "-fno-omit-frame-pointer", "-DOPENFEC_LITTLE_ENDIAN", "-w"]
    if asan:
        flags += ["-fsanitize=address"]
    if hooks:
        flags += ["-DOF_VERIF"]
    jobs = []
    objs = []
    for i, f in enumerate(files):
        o = os.path.join(odir, "%03d_%s.o" % (i, os.path.basename(f)[:-2]))
        objs.append(o)
        jobs.append(flags + [f, "-o", o])
    with cf.ThreadPoolExecutor(NCPU) as ex:
        list(ex.map(_cc, jobs))
    return objs


def build_prog(bdir, name, csrc, objs, asan=True, hooks=True, wrap=False, extra=(), opt="-O1"):
    src = os.path.join(bdir, "src")
    out = os.path.join(bdir, name)
    args = ["clang", opt, "-g", "-fno-omit-frame-pointer", "-DOPENFEC_LITTLE_ENDIAN", "-w", "-I" + src, "-I" + bdir,
            "-I" + HARNESS]
    if asan:
        args += ["-fsanitize=address"]
    if hooks:
        args += ["-DOF_VERIF"]
    args += [csrc] + list(objs) + ["-lm", "-o", out] + list(extra)
    if wrap:
        args += ["-Wl,--wrap=malloc,--wrap=calloc,--wrap=realloc,--wrap=free"]
    _cc(args)
    return out


def build_driver(bdir):
    stage_sources(bdir)
    objs = build_lib(bdir, asan=True, hooks=True)
    try:
        return build_prog(bdir, "of_driver", os.path.join(HARNESS, "of_driver.c"), objs, wrap=True)
    except Infra as e:
        # the layer-B projection reads fields of the LDPC control block; an implementation that no longer has them is
        # not a problem of the properties: build the driver without the projection (API-level validation is unaffected)
        log("note: driver built without the internal projection (%s)" % str(e).splitlines()[-1][:160])
        return build_prog(bdir, "of_driver", os.path.join(HARNESS, "of_driver.c"), objs, wrap=True, extra=("-DOF_DRIVER_NO_INTERNALS",))


ASAN_ENV = {"ASAN_OPTIONS": "detect_leaks=0:abort_on_error=0:halt_on_error=1:allocator_may_return_null=1:max_allocation_size_mb=3072:"
                            "detect_stack_use_after_return=0:malloc_context_size=8"}


def run_driver(drv, beh_path, trace_path, timeout=900, env=None):
    if os.path.exists(trace_path):
        os.remove(trace_path)
    e = dict(os.environ)
    e.update(ASAN_ENV)
    e["VERIF_SEED"] = str(seed())
    if env:
        e.update(env)
    try:
        r = subprocess.run([drv, beh_path, trace_path], env=e, capture_output=True, text=True, timeout=timeout)
    except subprocess.TimeoutExpired:
        raise Infra("driver timed out on %s" % beh_path)
    if r.returncode != 0:
        raise Infra("driver failed (%d): %s" % (r.returncode, r.stderr[-2000:]))
    return trace_path


# ----------------------------------------------------------------------- TLC

class TlcResult:
    def __init__(self, rc, out):
        self.rc = rc
        self.out = out
        self.states = 0
        self.distinct = 0
        m = re.findall(r"(\d+) states generated, (\d+) distinct states found", out)
        if m:
            self.states, self.distinct = int(m[-1][0]), int(m[-1][1])
        self.violated = ("Error: Invariant" in out) or ("is violated" in out) or ("Error: Action property" in out)
        self.prints = re.findall(r'^"?(VMSG .*?)"?$', out, flags=re.M)


def run_tlc(spec, cfg, mdir, env=None, workers=1, timeout=1200, simulate=None, depth=None, xmx="1g",
            extra=(), dfs=False, coverage=False):
    """Run TLC on spec (path) with cfg (path). Returns TlcResult. Raises Infra on
    parse errors / time-outs / crashes."""
    os.makedirs(mdir, exist_ok=True)
    e = dict(os.environ)
    if env:
        e.update({k: str(v) for k, v in env.items()})
    jopts = []
    if dfs:
        jopts.append("-Dtlc2.tool.queue.IStateQueue=StateDeque")
    if workers == 1:
        # many single-worker TLC processes run side by side for trace validation:
        # small heap (TLC sizes its fingerprint set from it), serial GC, C1 only
        jvm = ["-XX:+UseSerialGC", "-XX:-UsePerfData"]
        big = False
        try:
            big = env is not None and "TRACE" in env and os.path.getsize(str(env["TRACE"])) > 4 << 20
        except OSError:
            pass
        if not big:
            jvm.append("-XX:TieredStopAtLevel=1")      # short runs: start-up dominates; long ones need the optimising JIT
    else:
        jvm = ["-XX:+UseParallelGC"]
    args = ["java"] + jvm + ["-Xmx" + xmx, "-Xss16m"] + jopts + ["-cp", TLA_CP, "tlc2.TLC",
            "-workers", str(workers), "-metadir", os.path.join(mdir, "states"), "-config", cfg, "-nowarning"]
    if simulate:
        args += ["-simulate", "num=%d" % simulate]
        if depth:
            args += ["-depth", str(depth)]
    if coverage:
        args += ["-coverage", "1"]
    args += list(extra)
    args += [spec]
    try:
        r = subprocess.run(args, env=e, capture_output=True, text=True, timeout=timeout, cwd=os.path.dirname(spec))
    except subprocess.TimeoutExpired:
        raise Infra("TLC timed out: %s %s" % (spec, cfg))
    out = r.stdout + r.stderr
    res = TlcResult(r.returncode, out)
    if "Parsing or semantic analysis failed" in out or "Error: TLC threw an unexpected exception" in out \
            or "java.lang.OutOfMemoryError" in out or "Could not find or load" in out:
        raise Infra("TLC infrastructure failure for %s:\n%s" % (spec, out[-4000:]))
    return res


# ------------------------------------------------------------ verdict / evidence

def load_known():
    p = os.path.join(VERIF, "known_findings.json")
    if not os.path.exists(p):
        return {}
    with open(p) as f:
        d = json.load(f)
    return {x["key"]: x for x in d.get("findings", [])}


class Verdict:
    """Collects violations; known (open) findings are reported as KNOWN-FINDING
    and do not fail the check; everything else is a VIOLATION."""

    def __init__(self, pid):
        self.pid = pid
        self.known = load_known()
        self.violations = []  # (key, what, replay)
        self.known_hits = {}

    def report(self, key, what, replay):
        k = self.known.get(key)
        if k and k.get("status") == "open" and k.get("property") == self.pid:
            self.known_hits.setdefault(key, [0, what])
            self.known_hits[key][0] += 1
        else:
            self.violations.append((key, what, replay))

    def finish(self):
        for key, (cnt, what) in sorted(self.known_hits.items()):
            print("KNOWN-FINDING: property=%s key=%s occurrences=%d %s" % (self.pid, key, cnt, self.known[key]["what"]))
        seen = set()
        for key, what, replay in self.violations:
            if (key, replay) in seen:
                continue
            seen.add((key, replay))
            if len(seen) > 20:
                break
            print("VIOLATION property=%s replay=%s key=%s %s" % (self.pid, replay, key, what))
        return 1 if self.violations else 0


def write_evidence(pid, tier, level, coverage, wall, violations, assumptions=()):
    os.makedirs(os.path.join(VERIF, "evidence"), exist_ok=True)
    ev = {
        "property_id": pid,
        "tier": tier,
        "seed": seed(),
        "level": level,
        "coverage": coverage,
        "assumptions": list(assumptions),
        "wall_s": round(wall, 2),
        "violations": violations,
    }
    with open(os.path.join(VERIF, "evidence", pid + ".json"), "w") as f:
        json.dump(ev, f, indent=1)
        f.write("\n")


def save_replay(pid, name, files):
    d = os.path.join(VERIF, "replays", pid)
    os.makedirs(d, exist_ok=True)
    out = []
    for src in files:
        dst = os.path.join(d, name + "." + os.path.basename(src))
        shutil.copy(src, dst)
        out.append(dst)
    return out[0] if out else d


API_FUNCS = ["of_create_codec_instance", "of_release_codec_instance", "of_set_fec_parameters", "of_set_callback_functions",
             "of_build_repair_symbol", "of_decode_with_new_symbol", "of_set_available_symbols", "of_finish_decoding",
             "of_is_decoding_complete", "of_get_source_symbols_tab", "of_get_control_parameter", "of_set_control_parameter",
             "of_more_about"]


def build_eperf_shim(bdir, objs):
    """eperftool of the staged tree, with every public API call routed through harness/eperf_shim.c"""
    ed = os.path.join(bdir, "applis", "eperftool")
    odir = os.path.join(bdir, "obj_eperf")
    os.makedirs(odir, exist_ok=True)
    base = ["clang", "-c", "-O1", "-g", "-fno-omit-frame-pointer", "-DOPENFEC_LITTLE_ENDIAN", "-DOF_VERIF", "-w", "-fsanitize=address"]
    ren = ["-D%s=shim_%s" % (f, f) for f in API_FUNCS]
    jobs, eobjs = [], []
    for f in sorted(glob.glob(os.path.join(ed, "*.c"))):
        o = os.path.join(odir, os.path.basename(f)[:-2] + ".o")
        eobjs.append(o)
        jobs.append(base + ren + [f, "-o", o])
    so = os.path.join(odir, "eperf_shim.o")
    jobs.append(base + ["-I" + os.path.join(bdir, "src"), "-I" + os.path.join(bdir, "applis"), os.path.join(HARNESS, "eperf_shim.c"), "-o", so])
    with cf.ThreadPoolExecutor(NCPU) as ex:
        list(ex.map(_cc, jobs))
    out = os.path.join(bdir, "eperftool_shim")
    _cc(["clang", "-fsanitize=address", "-g"] + eobjs + [so] + list(objs) +
        ["-lm", "-o", out, "-Wl,--wrap=malloc,--wrap=calloc,--wrap=realloc,--wrap=free"])
    return out
