"""Run behaviours through of_driver and validate the traces with TLC (ApiTrace.tla)."""
import ast
import concurrent.futures as cf
import json
import os
import re
import time

import vlib


def split_execs(lines, nchunks):
    """split behaviour text (list of lines) at 'reset' into ~equal chunks"""
    execs, cur = [], []
    for ln in lines:
        cur.append(ln)
        if ln.startswith("reset"):
            execs.append(cur)
            cur = []
    if cur:
        execs.append(cur + ["reset"])
    nchunks = max(1, min(nchunks, len(execs)))
    # balance by number of lines
    chunks = [[] for _ in range(nchunks)]
    sizes = [0] * nchunks
    for ex in sorted(execs, key=len, reverse=True):
        i = sizes.index(min(sizes))
        chunks[i].append(ex)
        sizes[i] += len(ex)
    return [c for c in chunks if c], len(execs)


VMSG_RE = re.compile(r'<<\s*"VMSG",\s*(.*?)\s*>>', re.S)  # TLC wraps long tuples over several lines


def _tuples(out, tag):
    return [re.sub(r"\s+", " ", m) for m in re.findall(r'<<\s*"%s",\s*(.*?)\s*>>' % tag, out, flags=re.S)]


def parse_vmsg(out):
    res = []
    for m in VMSG_RE.finditer(out):
        try:
            t = ast.literal_eval("(" + re.sub(r"\s+", " ", m.group(1)) + ",)")
        except Exception:
            continue
        # (line, exec, tags, check, codec, ctx)
        res.append({"line": t[0], "exec": t[1], "tags": t[2].split(","), "check": t[3], "codec": t[4], "ctx": t[5]})
    return res


def _one_chunk(args):
    drv, bdir, idx, execs, spec, drv_env = args
    beh = os.path.join(bdir, "beh_%03d.txt" % idx)
    trc = os.path.join(bdir, "trace_%03d.ndjson" % idx)
    with open(beh, "w") as f:
        for ex in execs:
            f.write("\n".join(ex) + "\n")
    t0 = time.time()
    vlib.run_driver(drv, beh, trc, timeout=3000, env=drv_env)
    t1 = time.time()
    nlines = sum(1 for _ in open(trc))
    msgs, drift, xstat, states, distinct = [], [], [], 0, 0
    itsteps = 0
    mlsteps = 0
    pstat = []
    for sp in spec.split("+"):
        r = vlib.run_tlc(os.path.join(vlib.SPEC, sp + ".tla"), os.path.join(vlib.SPEC, sp + ".cfg"),
                         os.path.join(bdir, "tlc_%s_%03d" % (sp, idx)), env={"TRACE": trc}, workers=1, timeout=3000, xmx="1g")
        consumed = ("Postcondition" not in r.out or "is false" not in r.out) and "Model checking completed" in r.out
        if not consumed:
            # the trace was not validated to its end: infrastructure problem (spec evaluation error)
            raise vlib.Infra("trace %s not fully consumed by %s:\n%s" % (trc, sp, r.out[-3000:]))
        msgs += parse_vmsg(r.out)
        drift += _tuples(r.out, "DRIFT")
        for body in _tuples(r.out, "XSTAT"):
            f = body.replace("TRUE", "1").replace("FALSE", "0").split(", ")
            xstat.append(tuple(int(x) for x in f))
        states += r.states
        distinct += r.distinct
        for body in _tuples(r.out, "ITSTEPS"):
            itsteps += int(body)
        for body in _tuples(r.out, "MLSTEPS"):
            mlsteps += int(body)
        pstat += _tuples(r.out, "PSTAT")
    t2 = time.time()
    for m in msgs:
        m["chunk"] = idx
    return {"idx": idx, "beh": beh, "trace": trc, "lines": nlines, "states": states, "distinct": distinct,
            "msgs": msgs, "drift": drift, "xstat": xstat, "itsteps": itsteps, "mlsteps": mlsteps, "pstat": pstat, "t_driver": t1 - t0, "t_tlc": t2 - t1, "execs": len(execs)}


def run_api(bdir, drv, beh_lines, nproc=None, spec="ApiTrace", drv_env=None):
    """returns dict(results=[...per chunk], msgs=[...], execs=N, lines=N, states=N)"""
    nproc = nproc or vlib.NCPU
    chunks, nexec = split_execs(beh_lines, nproc)
    with cf.ThreadPoolExecutor(nproc) as ex:
        results = list(ex.map(_one_chunk, [(drv, bdir, i, c, spec, drv_env) for i, c in enumerate(chunks)]))
    msgs = [m for r in results for m in r["msgs"]]
    return {"results": results, "msgs": msgs, "execs": nexec, "drift": [d for r in results for d in r["drift"]],
            "xstat": [(r["idx"],) + x for r in results for x in r["xstat"]], "lines": sum(r["lines"] for r in results), "itsteps": sum(r["itsteps"] for r in results), "mlsteps": sum(r["mlsteps"] for r in results),
            "states": sum(r["states"] for r in results), "distinct": sum(r["distinct"] for r in results)}


def exec_of(result, xid):
    """behaviour lines of execution number xid (0-based inside the chunk)"""
    out, cur, i = [], [], 0
    for ln in open(result["beh"]):
        ln = ln.rstrip("\n")
        cur.append(ln)
        if ln.startswith("reset"):
            if i == xid:
                return cur
            cur = []
            i += 1
    return cur


def judge(pid, api, verdict, replay_dir_name=None):
    """Feed the VMSG messages tagged with pid into the verdict. INFRA-tagged messages raise."""
    # a message tagged INFRA *and* with properties (the library's own encoder failing to build the codeword of an accepted
    # configuration: the reference of a decoder execution is missing) is an infrastructure problem for every check but
    # the ones that own that failure
    infra = [m for m in api["msgs"] if "INFRA" in m["tags"] and pid not in m["tags"]]
    if infra:
        raise vlib.Infra("driver/protocol problem reported by the trace spec: %r" % infra[:3])
    # a crash / sanitizer report inside a protocol-conforming execution of this check's own workload
    # means the property could not hold for that execution: it counts for the running property as well
    mine = [m for m in api["msgs"] if pid in m["tags"] or m["check"].startswith("memfault-")]
    saved = {}
    for m in mine:
        key = "%s/codec%s" % (m["check"], m["codec"])
        res = api["results"][m["chunk"]]
        if key not in saved:
            lines = exec_of(res, m["exec"])
            d = os.path.join(vlib.VERIF, "replays", pid)
            os.makedirs(d, exist_ok=True)
            fn = os.path.join(d, re.sub(r"[^A-Za-z0-9_.-]", "_", key) + ".beh")
            with open(fn, "w") as f:
                f.write("# %s line %d of trace chunk, context %s\n" % (key, m["line"], m["ctx"]))
                f.write("\n".join(lines) + "\n")
            saved[key] = fn
        verdict.report(key, "check=%s codec=%s ctx=%s" % (m["check"], m["codec"], m["ctx"]), saved[key])
    return mine


def sample_execs(beh_lines, count=3):
    chunks, _ = split_execs(beh_lines, 1)
    execs = chunks[0] if chunks else []
    step = max(1, len(execs) // count)
    return [" ; ".join(e) for e in execs[::step][:count]]


def stats_summary(api):
    """aggregate the per-execution counters printed by the trace spec:
    (chunk, x, dec, finok, finfail, cbn, calls, gettab, build, skipped)"""
    xs = api.get("xstat", [])
    return {
        "executions_seen_by_spec": len(xs),
        "executions_with_decoded_symbol": sum(1 for x in xs if x[2] > 0),
        "decoded_source_symbols": sum(x[2] for x in xs),
        "finish_ok": sum(x[3] for x in xs),
        "finish_not_ok": sum(x[4] for x in xs),
        "callback_invocations": sum(x[5] for x in xs),
        "api_calls_validated": sum(x[6] for x in xs),
        "gettab_validated": sum(x[7] for x in xs),
        "build_validated": sum(x[8] for x in xs),
        "executions_cut_short_by_violation": sum(1 for x in xs if x[9]),
    }


def nontrivial_distinct(api, pred):
    """number of DISTINCT behaviours whose per-execution counters satisfy pred"""
    seen = set()
    by_chunk = {r["idx"]: r for r in api["results"]}
    texts = {}
    for x in api.get("xstat", []):
        if not pred(x):
            continue
        c = x[0]
        if c not in texts:
            ex, cur = [], []
            for ln in open(by_chunk[c]["beh"]):
                ln = ln.rstrip("\n")
                cur.append(ln)
                if ln.startswith("reset"):
                    ex.append("\n".join(cur))
                    cur = []
            texts[c] = ex
        if x[1] < len(texts[c]):
            seen.add(texts[c][x[1]])
    return len(seen)
