"""Run behaviours through of_driver and validate the traces with TLC (ApiTrace.tla)."""
import ast
import concurrent.futures as cf
import json
import os
import re
import time

import vlib


def split_execs(lines, nchunks):
    """split behaviour text (list of lines) at 'reset' into ~equal chunks"""
    execs, cur = [], []
    for ln in lines:
        cur.append(ln)
        if ln.startswith("reset"):
            execs.append(cur)
            cur = []
    if cur:
        execs.append(cur + ["reset"])
    nchunks = max(1, min(nchunks, len(execs)))
    # balance by number of lines
    chunks = [[] for _ in range(nchunks)]
    sizes = [0] * nchunks
    for ex in sorted(execs, key=len, reverse=True):
        i = sizes.index(min(sizes))
        chunks[i].append(ex)
        sizes[i] += len(ex)
    return [c for c in chunks if c], len(execs)


VMSG_RE = re.compile(r'^<<"VMSG", (.*)>>$', re.M)


def parse_vmsg(out):
    res = []
    for m in VMSG_RE.finditer(out):
        try:
            t = ast.literal_eval("(" + m.group(1) + ",)")
        except Exception:
            continue
        # (line, exec, tags, check, codec, ctx)
        res.append({"line": t[0], "exec": t[1], "tags": t[2].split(","), "check": t[3], "codec": t[4], "ctx": t[5]})
    return res


def _one_chunk(args):
    drv, bdir, idx, execs, spec = args
    beh = os.path.join(bdir, "beh_%03d.txt" % idx)
    trc = os.path.join(bdir, "trace_%03d.ndjson" % idx)
    with open(beh, "w") as f:
        for ex in execs:
            f.write("\n".join(ex) + "\n")
    t0 = time.time()
    vlib.run_driver(drv, beh, trc, timeout=3000)
    t1 = time.time()
    nlines = sum(1 for _ in open(trc))
    r = vlib.run_tlc(os.path.join(vlib.SPEC, spec + ".tla"), os.path.join(vlib.SPEC, spec + ".cfg"),
                     os.path.join(bdir, "tlc_%03d" % idx), env={"TRACE": trc}, workers=1, timeout=3000, xmx="1g")
    t2 = time.time()
    consumed = ("Postcondition" not in r.out or "is false" not in r.out) and "Model checking completed" in r.out
    if not consumed:
        # the trace was not validated to its end: infrastructure problem (spec evaluation error)
        raise vlib.Infra("trace %s not fully consumed by %s:\n%s" % (trc, spec, r.out[-3000:]))
    msgs = parse_vmsg(r.out)
    for m in msgs:
        m["chunk"] = idx
    drift = re.findall(r'^<<"DRIFT", (.*)>>$', r.out, flags=re.M)
    return {"idx": idx, "beh": beh, "trace": trc, "lines": nlines, "states": r.states, "distinct": r.distinct,
            "msgs": msgs, "drift": drift, "t_driver": t1 - t0, "t_tlc": t2 - t1, "execs": len(execs)}


def run_api(bdir, drv, beh_lines, nproc=None, spec="ApiTrace"):
    """returns dict(results=[...per chunk], msgs=[...], execs=N, lines=N, states=N)"""
    nproc = nproc or vlib.NCPU
    chunks, nexec = split_execs(beh_lines, nproc)
    with cf.ThreadPoolExecutor(nproc) as ex:
        results = list(ex.map(_one_chunk, [(drv, bdir, i, c, spec) for i, c in enumerate(chunks)]))
    msgs = [m for r in results for m in r["msgs"]]
    return {"results": results, "msgs": msgs, "execs": nexec, "drift": [d for r in results for d in r["drift"]], "lines": sum(r["lines"] for r in results),
            "states": sum(r["states"] for r in results), "distinct": sum(r["distinct"] for r in results)}


def exec_of(result, xid):
    """behaviour lines of execution number xid (0-based inside the chunk)"""
    out, cur, i = [], [], 0
    for ln in open(result["beh"]):
        ln = ln.rstrip("\n")
        cur.append(ln)
        if ln.startswith("reset"):
            if i == xid:
                return cur
            cur = []
            i += 1
    return cur


def judge(pid, api, verdict, replay_dir_name=None):
    """Feed the VMSG messages tagged with pid into the verdict. INFRA-tagged messages raise."""
    infra = [m for m in api["msgs"] if "INFRA" in m["tags"]]
    if infra:
        raise vlib.Infra("driver/protocol problem reported by the trace spec: %r" % infra[:3])
    mine = [m for m in api["msgs"] if pid in m["tags"]]
    saved = {}
    for m in mine:
        key = "%s/codec%s" % (m["check"], m["codec"])
        res = api["results"][m["chunk"]]
        if key not in saved:
            lines = exec_of(res, m["exec"])
            d = os.path.join(vlib.VERIF, "replays", pid)
            os.makedirs(d, exist_ok=True)
            fn = os.path.join(d, re.sub(r"[^A-Za-z0-9_.-]", "_", key) + ".beh")
            with open(fn, "w") as f:
                f.write("# %s line %d of trace chunk, context %s\n" % (key, m["line"], m["ctx"]))
                f.write("\n".join(lines) + "\n")
            saved[key] = fn
        verdict.report(key, "check=%s codec=%s ctx=%s" % (m["check"], m["codec"], m["ctx"]), saved[key])
    return mine


def sample_execs(beh_lines, count=3):
    chunks, _ = split_execs(beh_lines, 1)
    execs = chunks[0] if chunks else []
    step = max(1, len(execs) // count)
    return [" ; ".join(e) for e in execs[::step][:count]]
