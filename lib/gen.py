"""Behaviour generators for of_driver (input enumeration only; the oracle is the
TLA+ specification evaluated by TLC on the recorded trace)."""
import itertools
import random


def pick_align(rng):
    """offset of the application's symbol buffers from a 16-byte boundary: aligned (a third), behind a 4-byte header
    (what the shipped example client does), and every other offset 1..7"""
    return rng.choice([0, 0, 0, 4, 4, 1, 2, 3, 5, 6, 7, 4])


def need_len(codec, k, m):
    if codec == 1 or (codec == 2 and m == 8):
        return max(1, k)
    if codec == 2:
        return max(1, (k + 1) // 2)
    return max(1, (k + 7) // 8)


class P:
    """One parameter point."""

    def __init__(self, codec, k, r, m=0, N1=0, seed=0, length=None, payload="id", align=0):
        self.codec, self.k, self.r, self.m, self.N1, self.seed = codec, k, r, m, N1, seed
        self.len = length if length is not None else need_len(codec, k, m)
        self.payload, self.align = payload, align
        self.n = k + r

    def params_line(self, s, raw=False):
        return "%s %d %d %d %d %d %d %d %s %d" % ("rawparams" if raw else "params", s, self.k, self.r, self.len,
                                               self.m, self.N1, self.seed, self.payload, self.align)

    def key(self):
        return (self.codec, self.k, self.r, self.m, self.N1, self.seed, self.len, self.payload, self.align)


def decode_exec(p, order, api="recv", finish=True, cb=None, probe="each", release_at=None, s=0, query_first=False,
                dup=(), double_finish=False, both=False, refinish=False, builds_before=0, build_slot="buf",
                cb_late=False, cb_replace=None, mixed_cut=None):
    """One decoder execution. order: ESIs in arrival order (may contain repeats).
    probe: 'each' = complete+gettab after every call, 'end' = only at the end."""
    out = ["create %d %d dec%s" % (s, p.codec, " both" if both else ""), p.params_line(s)]
    # cb_late: the callback is registered only after a third of the arrivals; cb_replace: a second registration
    # (another mode) replaces the first after two thirds (of_decode_with_new_symbol histories only)
    late_at = len(order) // 3 if (cb and cb_late and api == "recv") else None
    repl_at = (2 * len(order)) // 3 if (cb and cb_replace and api == "recv") else None
    if cb and late_at is None:
        out.append("cb %d %s" % (s, cb))
    # an instance of both roles (both=True) may also build repair symbols of the block: the first builds_before of
    # them, in ESI order, before anything is submitted.  (Encoding calls after decoding has begun are not generated:
    # the LDPC decoder consumes the parity-check matrix it shares with the encoder -- see DESIGN.md, limits.)
    nb = 0
    for _ in range(builds_before if both else 0):
        if nb < p.r:
            out.append("build %d %d %s" % (s, p.k + nb, build_slot))
            nb += 1
    if query_first:
        out += ["complete %d" % s, "gettab %d" % s]
    calls = 0

    def probe_now():
        out.append("complete %d" % s)
        out.append("gettab %d" % s)

    def maybe_release():
        return release_at is not None and calls >= release_at

    done = False
    if api == "recv":
        for idx, e in enumerate(order):
            if maybe_release():
                done = True
                break
            if late_at is not None and idx == late_at:
                out.append("cb %d %s" % (s, cb))
            if repl_at is not None and idx == repl_at:
                out.append("cb %d %s" % (s, cb_replace))
            out.append("recv %d %d" % (s, e))
            calls += 1
            if probe == "each":
                probe_now()
    elif api == "mixed":
        # the symbols at hand when decoding starts go through of_set_available_symbols, later arrivals one by one
        cut = len(order) // 2 if mixed_cut is None else max(0, min(len(order), mixed_cut))
        first = sorted(set(order[:cut]))
        if not maybe_release():
            out.append("setavail %d %s" % (s, ",".join(str(e) for e in first) if first else "-"))
            calls += 1
            if probe == "each":
                probe_now()
            for e in order[cut:]:
                if maybe_release():
                    done = True
                    break
                out.append("recv %d %d" % (s, e))
                calls += 1
                if probe == "each":
                    probe_now()
        else:
            done = True
    else:
        if not maybe_release():
            out.append("setavail %d %s" % (s, ",".join(str(e) for e in order) if order else "-"))
            calls += 1
            if probe == "each":
                probe_now()
        else:
            done = True
    if late_at is not None and late_at >= len(order) and not done:
        out.append("cb %d %s" % (s, cb))
    if not done and finish and not maybe_release():
        out.append("finish %d" % s)
        calls += 1
        probe_now()
        if double_finish:
            out.append("finish %d" % s)
            probe_now()
        if refinish:        # finish again, but only if the session says it is complete (decided by the driver at run time)
            out.append("refinish %d" % s)
            probe_now()
    elif not done and probe == "end":
        probe_now()
    out.append("release %d" % s)
    return out


def encode_exec(p, order=None, slots="buf", s=0, release_at=None, both=False, rebuild=None):
    """rebuild = (source index, [ESIs]): after the first pass the application zeroes that source symbol and asks for
    those repair symbols again, into the same buffers (identity payloads only; in ESI order for the staircase)"""
    out = ["create %d %d enc%s" % (s, p.codec, " both" if both else ""), p.params_line(s)]
    esis = list(order) if order is not None else list(range(p.k, p.n))
    for i, e in enumerate(esis):
        if release_at is not None and i >= release_at:
            break
        slot = slots if isinstance(slots, str) else slots[i % len(slots)]
        out.append("build %d %d %s" % (s, e, slot))
    if rebuild and release_at is None and p.payload == "id":
        out.append("zero %d %d" % (s, rebuild[0]))
        for e in rebuild[1]:
            out.append("build %d %d buf" % (s, e))
    out.append("release %d" % s)
    return out


def join(execs):
    lines = []
    for ex in execs:
        lines += ex
        lines.append("reset")
    return "\n".join(lines) + "\n"


def all_subsets(n):
    for mask in range(1 << n):
        yield [i for i in range(n) if mask >> i & 1]


def order_variants(sub, rng, k):
    """canonical arrival orders of a received subset"""
    srt = list(sub)
    rev = list(reversed(sub))
    repfirst = [e for e in sub if e >= k] + [e for e in sub if e < k]
    rnd = list(sub)
    rng.shuffle(rnd)
    seen = []
    for o in (srt, rev, repfirst, rnd):
        if o not in seen:
            seen.append(o)
    return seen


# parameter menus ------------------------------------------------------------

LDPC_SMALL = [  # (k, r, N1, seed); regimes: odd/even N1 x completion entries added or not x tiny k x low code rate
    (4, 3, 3, 1), (5, 4, 3, 2), (6, 4, 4, 1), (3, 5, 3, 7), (1, 3, 3, 1), (2, 3, 3, 5),
    (3, 8, 4, 1), (2, 6, 4, 2), (1, 5, 4, 1), (2, 7, 6, 5), (4, 8, 4, 3), (3, 7, 3, 2),
    (6, 6, 3, 11), (7, 4, 4, 3), (8, 4, 3, 1), (5, 5, 5, 9), (8, 6, 4, 2), (9, 5, 3, 4),
    (10, 4, 4, 6), (7, 7, 6, 13), (10, 6, 3, 21), (12, 4, 4, 8),
]


def ldpc_points(max_n, count=None):
    pts = [P(3, k, r, N1=N1, seed=seed) for (k, r, N1, seed) in LDPC_SMALL if k + r <= max_n]
    return pts[:count] if count else pts


def rs_points(max_n, ms=(4, 8), codecs=(1, 2)):
    pts = []
    for n in range(2, max_n + 1):
        for k in range(1, n):
            for c in codecs:
                if c == 1:
                    pts.append(P(1, k, n - k))
                else:
                    for m in ms:
                        if n <= (1 << m) - 1:
                            pts.append(P(2, k, n - k, m=m))
    return pts
