"""History search for the streaming (iterative) LDPC decoder: arrival sequences on which ONE equation of a large
batch of equations that reach degree one at the same arrival is the only route to a source symbol.

Nothing here judges anything.  It is an input generator: a plain peeling simulation over the parity-check matrix the
implementation itself reports (H of the `params` event), run next to hypothetical decoders that forget one entry of
their degree-one work list, keeps the histories on which such a decoder would end with fewer source symbols.  The
histories are then executed by the real code and validated by ApiTrace / LdpcIt like every other history (the closure
is computed there, by GF2!Closure, not here)."""
import json
import os

import vlib
from gen import P


def fetch_H(drv, bdir, points, tag="peelH"):
    """parity-check matrices of the given LDPC points, as the implementation under check builds them"""
    beh = os.path.join(bdir, tag + ".beh")
    trc = os.path.join(bdir, tag + ".ndjson")
    with open(beh, "w") as f:
        for p in points:
            f.write("create 0 %d dec\n%s\nrelease 0\nreset\n" % (p.codec, p.params_line(0)))
    try:
        vlib.run_driver(drv, beh, trc)
    except vlib.Infra:
        return None         # a crash while configuring is for the validated workload to report, not for this pre-pass
    out = []
    with open(trc) as f:
        for line in f:
            if '"H":' not in line:
                continue
            ev = json.loads(line)
            out.append(ev["H"])
    if len(out) != len(points):
        return None
    return out


class Sim:
    def __init__(self, H, k, n):
        self.H = H = [[c for c in row if isinstance(c, int) and 0 <= c < n] for row in H]
        self.k = k
        self.n = n
        self.cols = [[] for _ in range(n)]
        for i, row in enumerate(H):
            for c in row:
                if 0 <= c < n:
                    self.cols[c].append(i)      # ascending row index: the order of a column walk

    def run(self, order, drop=None, stop_full=True):
        """returns (set of known source symbols, list of (call number, work-list length));
        drop = (call number, set of positions): that call forgets those entries of its work list"""
        H, k = self.H, self.k
        known = [False] * self.n
        unk = [len(set(r)) for r in H]
        calls = []
        ncall = [0]
        nsrc = [0]

        def inject(e):
            if known[e]:
                return
            known[e] = True
            if e < k:
                nsrc[0] += 1
            me = ncall[0]
            ncall[0] += 1
            work = []
            for i in self.cols[e]:
                unk[i] -= 1
                if unk[i] == 1:
                    work.append(i)
            if len(work) >= 2:
                calls.append((me, len(work)))
            for pos, i in enumerate(work):
                if drop is not None and drop[0] == me and pos in drop[1]:
                    continue
                if unk[i] != 1:
                    continue
                for c in H[i]:
                    if not known[c]:
                        inject(c)
                        break

        for e in order:
            if stop_full and nsrc[0] == k:
                break
            inject(e)
        return frozenset(i for i in range(k) if known[i]), calls


def _histories(sim, rng):
    """near-threshold arrival sequences that end with a heavy source symbol (many equations): the other source symbols but
    one to three, and every other repair symbol (each equation keeps one unknown repair symbol) or a random half"""
    k, n = sim.k, sim.n
    heavy = sorted(range(k), key=lambda c: -len(sim.cols[c]))[:max(1, k // 3)]
    while True:
        c = rng.choice(heavy)
        others = [e for e in range(k) if e != c]
        if not others:
            return
        missing = set(rng.sample(others, rng.randint(1, min(3, len(others)))))
        if rng.random() < 0.5:
            par = rng.randrange(2)
            reps = [e for e in range(k, n) if ((e - k) % 2 == par) != (rng.random() < 0.15)]
        else:
            keep = rng.uniform(0.35, 0.75)
            reps = [e for e in range(k, n) if rng.random() < keep]
        first = [e for e in range(k) if e != c and e not in missing] + reps
        rng.shuffle(first)
        yield first + [c]


def fragile_histories(sim, rng, tries, min_batch):
    """histories in which one arrival brings >= min_batch equations to degree one at once AND a decoder that forgot a
    contiguous window of that work list would end with fewer source symbols.  Returns [(order, batch, start, width)]
    with the narrowest such window of each history."""
    found = []
    it = _histories(sim, rng)
    for _ in range(tries):
        order = next(it, None)
        if order is None:
            break
        base, calls = sim.run(order)
        for (cn, ln) in calls:
            if ln < min_batch:
                continue
            if sim.run(order, drop=(cn, set(range(ln))))[0] == base:
                continue
            best = None
            for w in range(1, ln + 1):
                for a in range(0, ln - w + 1):
                    if sim.run(order, drop=(cn, set(range(a, a + w))))[0] != base:
                        best = (a, w)
                        break
                if best:
                    break
            found.append((order, ln, best[0], best[1]))
            break
    return found


def _worker(args):
    import random
    (H, k, n, seed, tries, min_batch) = args
    return fragile_histories(Sim(H, k, n), random.Random(seed), tries, min_batch)


def search(points, Hs, rng, tries, min_batch, nproc=16):
    """[(point, order, batch, start, width)] over all points, in parallel"""
    import multiprocessing
    jobs = [(H, p.k, p.n, rng.randrange(2 ** 30), tries, min_batch) for (p, H) in zip(points, Hs)]
    with multiprocessing.Pool(nproc) as pool:
        res = pool.map(_worker, jobs, chunksize=1)
    out = []
    for p, fl in zip(points, res):
        out += [(p, o, ln, a, w) for (o, ln, a, w) in fl]
    return out
