#!/bin/sh
# Runs the repository's own test suite (265 tests) with the OF_VERIF guard OFF:
# the normal CMake build never defines OF_VERIF, so the hooks expand to nothing.
set -e
if [ ! -f /repo/_build/build.ninja ] && [ ! -f /repo/_build/Makefile ]; then
  cmake -G Ninja -B /repo/_build -S /repo >/dev/null
fi
cmake --build /repo/_build >/dev/null
if grep -rq "OF_VERIF" /repo/_build/compile_commands.json 2>/dev/null; then echo "guard unexpectedly ON"; exit 1; fi
ctest --test-dir /repo/_build -j8 --timeout 900
