#!/usr/bin/env python3
"""Regenerates /verif/MANIFEST.json from the table below (single source of truth)."""
import json
import os
import subprocess

HERE = os.path.dirname(os.path.dirname(os.path.abspath(__file__)))

MC = "model_checking"
CHECKS = {
    # pid: (category, text, note, technique, design_ref)
    "C05": (MC, "Every LDPC-Staircase session's parity-check equations (encoder and decoder role, after arbitrary other "
            "sessions) are compared entry for entry by TLC with Rfc5170(k,r,N1,seed) of spec/PchkRfc5170.tla, an "
            "independent TLA+ transcription of RFC 5170 with the Park-Miller generator; structural lemmas of the "
            "definition are model-checked exhaustively on a grid of small points (spec/PchkModel.tla).",
            "Trusts the transcription of the RFC pseudo-code and the OF_VERIF pchk_done hook; bounded grid of (k,r,N1,seed).",
            "TLA+ definition (PchkRfc5170) + TLC trace validation of recorded set_fec_parameters lines (PchkTrace)", "5/C05"),
    "C01": (MC, "Soundness of all decoders. Implementation-shaped TLA+ model of the IT decoder (spec/LdpcIt.tla) explored by TLC over every "
            "arrival sequence of several LDPC parameter points with invariant Sound (every available symbol equals the encoded one, as "
            "coefficient vectors). Conformance: exhaustive received subsets of small codes and random histories of all three codecs, both "
            "submission APIs, callbacks on/off, with and without of_finish_decoding, are run in the real library with identity payloads and "
            "every of_get_source_symbols_tab entry is validated by TLC (spec/ApiTrace.tla: entry = unit vector, complete => all available).",
            "Linearity of the codecs (identity payload = coefficient vector); bounded parameter points; random-payload runs compare bytes in the driver only as a net.",
            "TLC model checking (LdpcIt) + TLC trace validation of recorded API histories (ApiTrace)", "5/C01"),
    "C02": (MC, "RS MDS property stated on the API-level specification (ApiTrace: an RS session is complete iff >= k distinct symbols were "
            "submitted and a decode trigger occurred; finish returns FAILURE below k). All 2^n received subsets of every (k,n) up to a bound, "
            "both RS codecs, m=4 and 8, both APIs, several orders, plus sampled subsets up to n=255 are run in the real decoders and validated by TLC; "
            "decoded symbols must be unit vectors. RsCodecModel.tla (the matrix construction, shuffle and Gauss-Jordan inversion of the code, transcribed) "
            "is model-checked for every k and every selection of k of the 15 symbols of GF(2^4) and for 49k selections of GF(2^8): generator rows "
            "canonical, selection invertible (MDS), reconstruction = source symbols; with n beyond the field the same model must find a singular selection.",
            "GF(2^8) selections are drawn from a pool of 15 ESIs spread over 0..254 (k <= 7), not all of them.",
            "TLC trace validation (ApiTrace) + TLC model checking (RsSession, RsCodecModel, GF2mModel)", "5/C02"),
    "C03": (MC, "ApiTrace decides, from the session's own parity-check equations only (GF2!SourceDetermined: Gauss-Jordan on sets), whether the "
            "received set determines all sources, and requires of_finish_decoding to complete exactly then; all 2^n subsets of several small "
            "LDPC points in several orders and both APIs, plus random histories around the decoding threshold with different libc rand() seeds.",
            "Equations of the session taken from the pchk_done hook; C05 ties them to RFC 5170. Bounded points.",
            "TLC trace validation against a definitional solvability oracle (GF2.tla)", "5/C03"),
    "C04": (MC, "TLC explores the implementation-shaped IT decoder model (LdpcIt.tla) over every arrival sequence with repetitions and checks "
            "that it refines the definitional peeling closure (invariant ItIsPeeling) and keeps its counters/partial sums consistent. "
            "Conformance: after every of_decode_with_new_symbol of exhaustive and random streaming histories the real decoder's available "
            "set and completion flag are validated by TLC against PeelClosure of the session's equations (ApiTrace).",
            "The null last repair symbol counts as known exactly when the session claims it and the claim is true of the recorded equations (C15 judges the claim itself); bounded points.",
            "TLC model checking (LdpcIt refinement) + TLC trace validation (ApiTrace)", "5/C04"),
    "C06": (MC, "Every built repair symbol of encoder sessions (identity payloads, so the symbol is the generator row) is validated by TLC: RS rows "
            "must satisfy g*V_top = V[esi] over GF(2^m) built from the primitive polynomials (GF2m.tla; both RS codecs against the same spec, "
            "hence byte compatibility), LDPC rows must make their parity equation sum to zero; output slot origin (application / library for "
            "NULL) and checksums of source buffers are part of the action's post-condition. GF2mModel justifies the derived field operators exhaustively.",
            "Generator rows observed through identity payloads (linearity; kernels C13).",
            "TLC trace validation (ApiTrace!DoBuild with GF2m) + TLC field model (GF2mModel)", "5/C06"),
    "C07": ("exploration", "Sanitizer-observed conformance runs driven by the specification's protocol: lengths 1..80 and page / 16-bit sizes, five alignments, parameter "
            "limits, release at every point, random histories of all codecs run under AddressSanitizer with exact-size application buffers, "
            "guard bytes, checksums of every application buffer and pointer table after every call (validated as post-conditions by ApiTrace); "
            "an ASan report or crash becomes a MemFault trace line that no specification action accepts.",
            "Memory safety is observed, not proved: only the executed histories are covered.",
            "spec-driven histories under ASan; buffer contract validated by TLC (ApiTrace)", "5/C07"),
    "C08": (MC, "Allocation ledger (--wrap malloc/calloc/realloc/free) attributed per session; ApiTrace requires at Release: status OK, no live "
            "library block left except decoded source symbols handed to the application, nothing freed that the library did not allocate "
            "(double free = ASan MemFault). Release is issued at every point of small life cycles (unconfigured, configured, after each call, "
            "after failed/successful finish) and at the end of random histories, including instances of both roles that encode and then decode. "
            "Model side: a ghost allocation ledger is threaded through every malloc/free site of the IT decoder and of the ML step in "
            "LdpcIt.tla / LdpcMl.tla (LedgerOK, NoLeakAtRelease, MlLedgerOK, MlNoLeakAtRelease; with and without callback), model-checked by TLC.",
            "Ledger observes malloc-family calls made while a library call is active; stdio buffers pre-allocated.",
            "TLC trace validation of ledger observations (ApiTrace!DoRelease) + TLC model checking of the ledger in LdpcIt/LdpcMl", "5/C08"),
    "C09": (MC, "Finite boundary grid (0, 1, each limit, limit+1, 2^16, 2^31, 2^32-1; seeds around the signed range; m in 0..16) per codec: "
            "TLC compares every of_set_fec_parameters status with ParamCheck!InLimits (advertised limits read from the session), validates "
            "full encode/decode cycles on accepted boundary points with ApiTrace, and every single-argument corruption (NULL session, ESI "
            "out of range, wrong role, NULL table/buffer) inside otherwise valid life cycles that must then still complete correctly.",
            "Exhaustive over the boundary grid, not over all 2^32 values per field.",
            "TLC trace validation (ParamTrace + ApiTrace)", "5/C09"),
    "C10": (MC, "ApiTrace post-conditions: finish status OK iff complete afterwards / FAILURE iff not, decode_with_new_symbol and "
            "set_available_symbols return OK, is_decoding_complete equals 'all k available' and never reverts, received source symbols keep "
            "the application's pointer; validated on exhaustive subsets with queries after every call, finish when already complete, double "
            "finish, nothing received, both APIs, and random histories.",
            "Bounded points; same trusted base as C01.", "TLC trace validation (ApiTrace)", "5/C10"),
    "C11": (MC, "ApiTrace!CbCheck: during each call the callback log must contain exactly the newly decoded (not received) source symbols, once "
            "each, with ESI < k, size = symbol length and the right session; of_get_source_symbols_tab must report the callback's buffer (or a "
            "library buffer when it returned NULL). Exhaustive subsets x {buf, null, mix} x both APIs and random histories.",
            "Every symbol of the table given to set_available_symbols counts as received by that call (kept by pointer, no callback), whatever the order in which the implementation walks the table.",
            "TLC trace validation (ApiTrace)", "5/C11"),
    "C17": (MC, "SparseMatrix.tla (set of (row,col) pairs plus the block/free-list allocator, BlockSize 2 in the model) is model-checked over all "
            "operation sequences to a bounded depth on small matrices (invariants: find = membership, sorted traversals, no dangling free-list "
            "entry, free releases every block); SparseTrace.tla matches every recorded operation of the real module (allocate, insert, find, "
            "delete, clear, copy, copyrows, copycols, copy_filled_matrix, sparse/dense conversions, free) with the spec action of the same name "
            "and compares the full projection (both traversals and every find answer); ASan faults and the allocation ledger are trace records.",
            "In-range arguments only; _opt copies only onto empty destinations; trace validation with the real BlockSize 1024.",
            "TLC model checking (SparseMatrix) + TLC trace validation (SparseTrace)", "5/C17"),
    "C18": (MC, "DenseMatrix.tla (bit matrix with 32-bit word packing) model-checked on small matrices; DenseSolve.cfg checks the solver lemmas on "
            "all 70 510 systems with q<=p<=4; DenseTrace.tla validates every recorded element operation, weight/popcount helper and solver "
            "call (symbolic right-hand sides as coefficient vectors: status = full column rank, returned variables = unique solution) of the real code.",
            "row_weight_ignore_first only for multiples of 32; copycols only onto destinations without extra non-empty rows.",
            "TLC model checking (DenseMatrix/DenseSolve) + TLC trace validation (DenseTrace)", "5/C18"),
    "C19": (MC, "PrngTrace.tla validates against ParkMiller.tla (Schrage step, exact floor scaling by bit-serial arithmetic): the first 10,002 "
            "states step by step (10,000th = 1043618065), a walk of the real generator with checkpoints every window checked as "
            "multiplication by 16807^window mod p (thorough: the full cycle of 2^31-2 steps, state 1 recurs exactly there), (state, maxv, "
            "result) triples incl. Carta carry boundaries and both sides of 2^53, and the seeding acceptance table on 64-bit arguments.",
            "Checkpoints: two cancelling errors inside one window would be missed.", "TLC trace validation (PrngTrace)", "5/C19"),
    "C20": (MC, "BlockingTrace.tla validates every recorded (B,L,E) -> (N,I,A_large,A_small) of the real of_compute_blocking_struct against "
            "Blocking.tla (exact integer arithmetic on base-2^15 limbs): exhaustive T,B grids plus sampled tuples up to 2^32-1 incl. N >= 2^31; "
            "BlockingModel.tla model-checks the definition itself.",
            "Sampling beyond the exhaustive grid.", "TLC trace validation (BlockingTrace) + TLC model (BlockingModel)", "5/C20"),
    "C12": (MC, "Self-composition on recorded traces: random groups of 2-8 sessions (all codecs, equal or different parameters, encoders and "
            "decoders, callbacks) are run with their calls interleaved and, separately, each session alone in a fresh process; IndepTrace.tla "
            "requires every per-session observation (statuses, completion, decoded vectors and pointer classes, built repair symbols, callback "
            "log, parity-check equations, per-session ledger) to be equal line by line; the interleaved run is also validated by ApiTrace and "
            "PchkTrace. SessionsModel.tla model-checks the design-level dependence on the global PRNG state over all interleavings of three "
            "sessions: independent given that only in-range seeds are accepted (C09).",
            "Single thread, as the property states; library globals observed only through session results.",
            "TLC model checking (SessionsModel) + TLC trace self-composition (IndepTrace) + ApiTrace/PchkTrace", "5/C12"),
    "C13": (MC, "Kernels.tla defines each kernel byte-wise and the spec-defined operand contents; kernel_driver runs the seven kernels of the real "
            "code over sizes x operand counts x alignment offsets x field constants on exact-size (ASan) and guard-byte buffers; KernelTrace.tla "
            "recomputes every expected output and guard byte and checks the completeness of the enumerated case space.",
            "Two spec-defined content patterns instead of all contents (every table entry is covered by C14).",
            "TLC trace validation of kernel runs (KernelTrace) against the byte-wise definition (Kernels.tla)", "5/C13"),
    "C14": (MC, "dump_tables records every entry of the 13 field tables (static GF(2^4)/GF(2^8) tables and codec 1's generated ones); TableTrace.tla "
            "compares each with arithmetic defined from the primitive polynomials (GF2m!MulDef, powers of x) and checks in the same run that the "
            "derived exp/log product equals MulDef for all pairs. Finite domain, enumerated completely.",
            "Entries at indices beyond the field (doubled tables) are reported as DRIFT only.",
            "TLC evaluation of the field definition over a complete table dump (TableTrace)", "5/C14"),
    "C16": (MC, "The shared IT and ML engine models (LdpcIt/LdpcMl) are model-checked on 2D product codes (Ldpc2D_MC: all arrival sequences and "
            "finish calls of 2x2, 1x3, 2x3, ...: soundness, peeling refinement, ML completeness, single-loss recovery, product structure). "
            "For every (k, n-k) with k<=16, n<=24 the codec accepts (probed), ApiTrace checks Pchk2D!IsProductCode on the session's equations, "
            "every built repair symbol against its check, and decoding histories (every single loss, all subsets for small n, bounded-loss and "
            "random patterns otherwise, both APIs, callbacks, release at every point) against peeling closure / GF(2) solvability, soundness and the ledger.",
            "Equations read from the control block after of_set_fec_parameters; n>16 sampled rather than all 2^n.",
            "TLC model checking (Ldpc2D_MC) + TLC trace validation (ApiTrace + Pchk2D)", "5/C16"),
    "C15": (MC, "For every recorded LDPC session TLC evaluates, on the session's own equations, whether the sum of all "
            "equations isolates the last repair symbol; a claim (OF_CRTL_LDPC_STAIRCASE_IS_LAST_SYMBOL_NULL) must imply "
            "it and must agree between encoder and decoder sessions of equal parameters. The LastNull lemma of the "
            "RFC construction is model-checked exhaustively on small points. Sessions with n-k up to 48990 (counts of the "
            "construction at 2^15/2^16) are decided on the observed equations alone (PchkTrace!CheckClaim).",
            "Linearity: a symbol that is the empty GF(2) combination of the sources is zero for every source block.",
            "TLC lemma check (PchkModel) + TLC trace validation (PchkTrace)", "5/C15"),
}

NOT_YET = {}


def main():
    props = [json.loads(l)["id"] for l in open(os.path.join(HERE, "properties.jsonl"))]
    hooks = subprocess.run(["git", "-C", "/repo", "log", "--format=%H %s"], capture_output=True, text=True).stdout.splitlines()
    hook_commits = [l.split()[0] for l in hooks if "verif hooks" in l]
    m = {
        "version": 1,
        "setup_cmd": "./setup.sh",
        "hooks": {
            "guard": "OF_VERIF",
            "enable": "every check copies /repo/src into /verif/build/<id>/src and compiles all library sources with "
                      "clang -DOF_VERIF -fsanitize=address (lib/vlib.py: build_lib)",
            "baseline_off_cmd": "./tools/baseline_off.sh",
            "source_commits": hook_commits,
            "add_only": True,
        },
        "engines": [
            {"name": "tlc", "path": "/usr/local/bin/tlc", "serves_properties": sorted(CHECKS),
             "kind_free_text": "TLC 1.8.0 explicit-state model checker; specs under /verif/spec"},
            {"name": "eperf_shim", "path": "/verif/harness/eperf_shim.c", "serves_properties": ["C01", "C02", "C03", "C04", "C10"],
             "kind_free_text": "applis/eperftool rebuilt with every API call routed through a tracing shim: the repository's own "
                               "test command lines become traces validated by ApiTrace"},
            {"name": "of_driver", "path": "/verif/harness/of_driver.c", "serves_properties": sorted(CHECKS),
             "kind_free_text": "conformance harness: replays behaviours in the real library (ASan, allocation ledger) "
                               "and records ndjson traces validated by TLC"},
        ],
        "checks": [],
        "not_applicable": [],
        "notes": "All verdicts come from TLC evaluating /verif/spec/*.tla on traces recorded from the library built "
                 "from /repo's working tree; see DESIGN.md.",
    }
    for pid in props:
        if pid in CHECKS:
            cat, text, note, tech, ref = CHECKS[pid]
            m["checks"].append({
                "property_id": pid,
                "quick_cmd": "./check %s --tier quick" % pid,
                "thorough_cmd": "./check %s --tier thorough" % pid,
                "evidence_file": "/verif/evidence/%s.json" % pid,
                "replay_cmd_template": "./check %s --replay {path}" % pid,
                "engine": "tlc",
                "level_claimed": {"category": cat, "text": text, "design_ref": "DESIGN.md section " + ref},
                "level_note": note,
                "technique": tech,
            })
        else:
            m["not_applicable"].append({"property_id": pid, "reason": NOT_YET.get(
                pid, "check not built yet in this round (planned: see DESIGN.md section 5); not claimed")})
    with open(os.path.join(HERE, "MANIFEST.json"), "w") as f:
        json.dump(m, f, indent=1)
        f.write("\n")


if __name__ == "__main__":
    main()
