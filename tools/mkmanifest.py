#!/usr/bin/env python3
"""Regenerates /verif/MANIFEST.json from the table below (single source of truth)."""
import json
import os
import subprocess

HERE = os.path.dirname(os.path.dirname(os.path.abspath(__file__)))

MC = "model_checking"
CHECKS = {
    # pid: (category, text, note, technique, design_ref)
    "C05": (MC, "Every LDPC-Staircase session's parity-check equations (encoder and decoder role, after arbitrary other "
            "sessions) are compared entry for entry by TLC with Rfc5170(k,r,N1,seed) of spec/PchkRfc5170.tla, an "
            "independent TLA+ transcription of RFC 5170 with the Park-Miller generator; structural lemmas of the "
            "definition are model-checked exhaustively on a grid of small points (spec/PchkModel.tla).",
            "Trusts the transcription of the RFC pseudo-code and the OF_VERIF pchk_done hook; bounded grid of (k,r,N1,seed).",
            "TLA+ definition (PchkRfc5170) + TLC trace validation of recorded set_fec_parameters lines (PchkTrace)", "5/C05"),
    "C15": (MC, "For every recorded LDPC session TLC evaluates, on the session's own equations, whether the sum of all "
            "equations isolates the last repair symbol; a claim (OF_CRTL_LDPC_STAIRCASE_IS_LAST_SYMBOL_NULL) must imply "
            "it and must agree between encoder and decoder sessions of equal parameters. The LastNull lemma of the "
            "RFC construction is model-checked exhaustively on small points.",
            "Linearity: a symbol that is the empty GF(2) combination of the sources is zero for every source block.",
            "TLC lemma check (PchkModel) + TLC trace validation (PchkTrace)", "5/C15"),
}

NOT_YET = {}


def main():
    props = [json.loads(l)["id"] for l in open(os.path.join(HERE, "properties.jsonl"))]
    hooks = subprocess.run(["git", "-C", "/repo", "log", "--format=%H %s"], capture_output=True, text=True).stdout.splitlines()
    hook_commits = [l.split()[0] for l in hooks if "verif hooks" in l]
    m = {
        "version": 1,
        "setup_cmd": "./setup.sh",
        "hooks": {
            "guard": "OF_VERIF",
            "enable": "every check copies /repo/src into /verif/build/<id>/src and compiles all library sources with "
                      "clang -DOF_VERIF -fsanitize=address (lib/vlib.py: build_lib)",
            "baseline_off_cmd": "./tools/baseline_off.sh",
            "source_commits": hook_commits,
            "add_only": True,
        },
        "engines": [
            {"name": "tlc", "path": "/usr/local/bin/tlc", "serves_properties": sorted(CHECKS),
             "kind_free_text": "TLC 1.8.0 explicit-state model checker; specs under /verif/spec"},
            {"name": "of_driver", "path": "/verif/harness/of_driver.c", "serves_properties": sorted(CHECKS),
             "kind_free_text": "conformance harness: replays behaviours in the real library (ASan, allocation ledger) "
                               "and records ndjson traces validated by TLC"},
        ],
        "checks": [],
        "not_applicable": [],
        "notes": "All verdicts come from TLC evaluating /verif/spec/*.tla on traces recorded from the library built "
                 "from /repo's working tree; see DESIGN.md.",
    }
    for pid in props:
        if pid in CHECKS:
            cat, text, note, tech, ref = CHECKS[pid]
            m["checks"].append({
                "property_id": pid,
                "quick_cmd": "./check %s --tier quick" % pid,
                "thorough_cmd": "./check %s --tier thorough" % pid,
                "evidence_file": "/verif/evidence/%s.json" % pid,
                "replay_cmd_template": "./check %s --replay {path}" % pid,
                "engine": "tlc",
                "level_claimed": {"category": cat, "text": text, "design_ref": "DESIGN.md section " + ref},
                "level_note": note,
                "technique": tech,
            })
        else:
            m["not_applicable"].append({"property_id": pid, "reason": NOT_YET.get(
                pid, "check not built yet in this round (planned: see DESIGN.md section 5); not claimed")})
    with open(os.path.join(HERE, "MANIFEST.json"), "w") as f:
        json.dump(m, f, indent=1)
        f.write("\n")


if __name__ == "__main__":
    main()
