#!/bin/bash
# usage: tools/seedtest.sh <seed dir under /tmp/seed_out> <worktree> <check ids...>
# 1. confirms in the scratch worktree: change builds, 265 tests pass, demo fails with / passes without the change
# 2. applies the patch to /repo, runs the given checks (quick), reverts /repo
set -u
SD=$1; WT=$2; shift 2
OUT=/verif/seeded/$(basename $SD)
mkdir -p $OUT
cp $SD/patch.diff $OUT/patch.diff
for f in demo.c build.sh notes.md; do [ -f $SD/$f ] && cp $SD/$f $OUT/; done
log=$OUT/confirm.log; : > $log
cd $WT
git stash -q 2>>$log; git checkout -q -- . 2>>$log; git stash drop -q 2>>$log
# unchanged tree
cmake -G Ninja -B $WT/_build -S $WT >>$log 2>&1 && cmake --build $WT/_build >>$log 2>&1
(cd $SD && bash build.sh $WT) >>$log 2>&1; rc_clean=$?
# changed tree
git apply $SD/patch.diff 2>>$log || echo "APPLY FAILED" >>$log
cmake --build $WT/_build >>$log 2>&1; rc_build=$?
ctest --test-dir $WT/_build -j8 --timeout 900 >>$log 2>&1; rc_tests=$?
(cd $SD && bash build.sh $WT) >>$log 2>&1; rc_mut=$?
echo "demo_unchanged_rc=$rc_clean build_rc=$rc_build tests_rc=$rc_tests demo_changed_rc=$rc_mut" | tee $OUT/confirm.txt
rm -rf $WT/_build $WT/bin
# run the checks against /repo with the patch applied
cd /repo && git apply $SD/patch.diff || { echo "cannot apply to /repo"; exit 2; }
cd /verif
: > $OUT/checks.txt
for c in "$@"; do
  ./check $c --tier quick > $OUT/check_$c.out 2>&1; rc=$?
  echo "$c rc=$rc $(grep -c '^VIOLATION' $OUT/check_$c.out) violations" | tee -a $OUT/checks.txt
  grep '^VIOLATION' $OUT/check_$c.out | head -3 | cut -c1-220
done
git -C /repo checkout -- . 
git -C /repo status --short | grep -v _build | head -3
