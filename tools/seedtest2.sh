#!/bin/bash
# usage: tools/seedtest2.sh <id> <check ids...>   (seed in /tmp/seed_out/<id>, worktree /tmp/seed/<id> with the change applied)
set -u
ID=$1; shift
SD=/tmp/seed_out/$ID; WT=/tmp/seed/$ID; OUT=/verif/seeded/$ID
mkdir -p $OUT
for f in patch.diff demo.c build.sh notes.md; do [ -f $SD/$f ] && cp $SD/$f $OUT/; done
cd $WT
git stash -q
cmake -G Ninja -B $WT/_build -S $WT >/dev/null 2>&1 && cmake --build $WT/_build >/dev/null 2>&1
(cd $SD && timeout 600 bash build.sh $WT) >/dev/null 2>&1; rc_clean=$?
git stash pop -q
cmake --build $WT/_build >/dev/null 2>&1; rc_build=$?
timeout 900 ctest --test-dir $WT/_build -j8 --timeout 900 >/dev/null 2>&1; rc_tests=$?
(cd $SD && timeout 600 bash build.sh $WT) >/dev/null 2>&1; rc_mut=$?
echo "demo_unchanged_rc=$rc_clean build_rc=$rc_build tests_rc=$rc_tests demo_changed_rc=$rc_mut" | tee $OUT/confirm.txt
rm -rf $WT/_build $WT/bin
cd ${VERIF_DIR:-/verif}
: > $OUT/checks.txt
for c in "$@"; do
  VERIF_REPO=$WT timeout 1500 ./check $c --tier quick > $OUT/check_$c.out 2>&1; rc=$?
  echo "$c rc=$rc $(grep -c '^VIOLATION' $OUT/check_$c.out) violations" | tee -a $OUT/checks.txt
  grep '^VIOLATION' $OUT/check_$c.out | head -2 | cut -c1-200
done
