#!/usr/bin/env python3
"""Corruption / hook-removal drill: shows that the trace specifications actually constrain the recorded
observations.  An accepted trace of the real library is corrupted one field at a time (or one kind of
event is dropped); every corruption must make the owning trace specification report at least one
message (VMSG for API-visible fields, DRIFT for internal projections).  Not part of the registered
checks (it cannot raise alarms); run by hand:  python3 tools/selftest.py"""
import json
import os
import random
import sys

HERE = os.path.dirname(os.path.dirname(os.path.abspath(__file__)))
sys.path.insert(0, os.path.join(HERE, "lib"))
sys.path.insert(0, os.path.join(HERE, "checks"))
import apicheck  # noqa: E402
import gen  # noqa: E402
import vlib  # noqa: E402

P = gen.P


def base_behaviours(rng):
    ex = []
    p = P(3, 6, 4, N1=3, seed=1)
    ex.append(gen.decode_exec(p, [0, 7, 2, 9, 4, 6, 1], finish=True, cb="buf", probe="each"))
    ex.append(gen.decode_exec(p, [8, 9, 0, 1, 2, 3], api="setavail", finish=True, cb="mix", probe="each"))
    p2 = P(3, 6, 4, N1=4, seed=1)
    ex.append(gen.decode_exec(p2, [5, 4, 3, 8, 6, 7], finish=True, probe="each"))
    ex.append(gen.decode_exec(P(1, 4, 3, length=6), [6, 0, 5, 2, 1], finish=True, cb="buf", probe="each"))
    ex.append(gen.decode_exec(P(2, 5, 4, m=4, length=4), [8, 7, 6, 1, 0], api="setavail", finish=True, cb="null", probe="each"))
    ex.append(gen.encode_exec(P(3, 5, 4, N1=3, seed=2), slots=["buf", "null"]))
    ex.append(gen.encode_exec(P(2, 5, 4, m=8, length=7)))
    ex.append(gen.encode_exec(P(1, 5, 4, length=12, payload="idr")))
    return ex


def corruptions():
    """(name, spec, predicate on record, mutation) -- applied to the first matching record"""
    def setf(k, v):
        return lambda d: d.__setitem__(k, v)

    def flip_status(d):
        d["st"] = 1 if d["st"] == 0 else 0

    def first_vec_extra(d):
        for e in d["tab"]:
            if "v" in e:
                e["v"].append([e["v"][0][0] + 1, 1])
                return

    def first_origin(d):
        for e in d["tab"]:
            if e["o"] == "app":
                e["o"] = "lib"
                return

    def decoded_origin(d):
        for e in d["tab"]:
            if e["o"] in ("cb", "lib"):
                e["o"] = "app"
                return

    def drop_cb(d):
        d["cb"] = d["cb"][1:]

    def dup_cb(d):
        d["cb"] = d["cb"] + d["cb"][:1]

    def cb_size(d):
        d["cb"][0][1] += 1

    def null_entry(d):
        for e in d["tab"]:
            if e["o"] != "null":
                e.clear()
                e["o"] = "null"
                return

    def h_entry(d):
        d["H"][0] = d["H"][0][1:]

    def build_vec(d):
        d["v"] = d["v"][:-1] if len(d["v"]) > 1 else d["v"] + [[0, 1]]

    def it_unk(d):
        d["it"]["unk"][0] += 1

    def it_ct(d):
        d["it"]["ct"][0] ^= 1

    def it_rows(d):
        for r in d["it"]["rows"]:
            if r:
                r.pop()
                return

    def ml_piv(d):
        d["ml"]["piv"][0] = d["ml"]["piv"][0] + 1 if d["ml"]["piv"] else None

    has_tab = lambda d: d["e"] == "GetTab" and any("v" in e for e in d["tab"])
    return [
        ("recv-status", "ApiTrace", lambda d: d["e"] == "Recv", flip_status),
        ("finish-status", "ApiTrace", lambda d: d["e"] == "Finish", flip_status),
        ("complete-flag", "ApiTrace", lambda d: d["e"] == "Complete", lambda d: d.__setitem__("val", 1 - d["val"])),
        ("coefficient-vector", "ApiTrace", has_tab, first_vec_extra),
        ("received-pointer-class", "ApiTrace", lambda d: d["e"] == "GetTab" and any(e["o"] == "app" for e in d["tab"]), first_origin),
        ("decoded-pointer-class", "ApiTrace", lambda d: d["e"] == "GetTab" and any(e["o"] in ("cb", "lib") for e in d["tab"]), decoded_origin),
        ("available-entry-dropped", "ApiTrace", has_tab, null_entry),
        ("callback-dropped", "ApiTrace", lambda d: d.get("cb"), drop_cb),
        ("callback-duplicated", "ApiTrace", lambda d: d.get("cb"), dup_cb),
        ("callback-size", "ApiTrace", lambda d: d.get("cb"), cb_size),
        ("claim-asked-again", "ApiTrace", lambda d: d["e"] == "Complete" and "lastnull" in d, lambda d: d.__setitem__("lastnull", 1 - d["lastnull"])),
        ("app-buffer-flag", "ApiTrace", lambda d: d["e"] == "Recv", setf("app_ok", 0)),
        ("leak-count", "ApiTrace", lambda d: d["e"] == "Release", setf("leak", 1)),
        ("library-freed-app-symbol", "ApiTrace", lambda d: d["e"] == "Release", setf("libfreed", 1)),
        ("foreign-free", "ApiTrace", lambda d: d["e"] == "Release", setf("ff", 1)),
        ("built-repair-symbol", "ApiTrace", lambda d: d["e"] == "Build" and "v" in d, build_vec),
        ("build-slot-origin", "ApiTrace", lambda d: d["e"] == "Build" and d.get("o") == "lib", setf("o", "app")),
        ("parity-check-entry", "PchkTrace", lambda d: d["e"] == "SetParams" and "H" in d, h_entry),
        ("lastnull-claim", "PchkTrace", lambda d: d["e"] == "SetParams" and d.get("lastnull") == 0 and d.get("codec") == 3, setf("lastnull", 1)),
        ("it-unknown-counter", "LdpcItTrace", lambda d: d["e"] == "Recv" and "it" in d, it_unk),
        ("it-partial-sum-presence", "LdpcItTrace", lambda d: d["e"] == "Recv" and "it" in d, it_ct),
        ("it-matrix-entry", "LdpcItTrace", lambda d: d["e"] == "Recv" and "it" in d and any(d["it"]["rows"]), it_rows),
        ("ml-pivot-row", "LdpcItTrace", lambda d: d["e"] == "Finish" and d.get("ml", {}).get("piv"), ml_piv),
    ]


def run_spec(bdir, spec, trace, tag):
    r = vlib.run_tlc(os.path.join(vlib.SPEC, spec + ".tla"), os.path.join(vlib.SPEC, spec + ".cfg"),
                     os.path.join(bdir, "tlc_" + tag), env={"TRACE": trace}, workers=1, timeout=600)
    return apicheck.parse_vmsg(r.out), apicheck._tuples(r.out, "DRIFT")


def main():
    rng = random.Random(1)
    bdir = vlib.scratch("selftest")
    rows = []
    try:
        drv = vlib.build_driver(bdir)
        beh = os.path.join(bdir, "beh.txt")
        open(beh, "w").write(gen.join(base_behaviours(rng)))
        trace = os.path.join(bdir, "base.ndjson")
        vlib.run_driver(drv, beh, trace, env={"OF_DRIVER_ITPROJ": "64"})
        recs = [json.loads(l) for l in open(trace)]
        for spec in ("ApiTrace", "PchkTrace", "LdpcItTrace"):
            v, d = run_spec(bdir, spec, trace, "base_" + spec)
            if v or d:
                print("BASE TRACE NOT ACCEPTED by %s: %r %r" % (spec, v[:2], d[:2]))
                return 2
        ok = True
        for (name, spec, pred, mut) in corruptions():
            idx = next((i for i, d in enumerate(recs) if pred(d)), None)
            if idx is None:
                rows.append((name, spec, "no record to corrupt"))
                ok = False
                continue
            mod = json.loads(json.dumps(recs))
            mut(mod[idx])
            tp = os.path.join(bdir, "c_%s.ndjson" % name)
            with open(tp, "w") as f:
                for d in mod:
                    f.write(json.dumps(d, separators=(",", ":")) + "\n")
            v, dr = run_spec(bdir, spec, tp, name)
            hit = [m for m in v if m["line"] >= idx + 1] or dr
            rows.append((name, spec, "rejected (%s)" % (hit[0]["check"] if v and hit and isinstance(hit[0], dict) else "DRIFT") if hit else "ACCEPTED"))
            ok = ok and bool(hit)
        # hook removal: without the pchk_done observation there is no H, the decoder lines cannot be validated
        mod = [dict(d) for d in recs]
        for d in mod:
            d.pop("H", None)
        tp = os.path.join(bdir, "nohook.ndjson")
        with open(tp, "w") as f:
            for d in mod:
                f.write(json.dumps(d, separators=(",", ":")) + "\n")
        v, dr = run_spec(bdir, "ApiTrace", tp, "nohook")
        rows.append(("hook pchk_done removed (no H)", "ApiTrace", "rejected (%d messages, e.g. %s)" % (len(v), v[0]["check"]) if v else "ACCEPTED"))
        ok = ok and bool(v)
        for r in rows:
            print("%-34s %-12s %s" % r)
        print("SELFTEST", "OK" if ok else "FAILED")
        return 0 if ok else 1
    finally:
        vlib.cleanup(bdir)


if __name__ == "__main__":
    sys.exit(main())
