----------------------------- MODULE DenseTrace -----------------------------
(***************************************************************************)
(* Validates a trace of matrix_driver (the REAL dense matrix module, the   *)
(* popcount helpers and of_linear_binary_code_solve_dense_system, run      *)
(* under AddressSanitizer) against DenseMatrix:                            *)
(*  - every recorded matrix operation must be an in-range use (Enabled),   *)
(*    is replayed with Apply, its returned value must be ARet and the      *)
(*    observed bits of the operand matrices must be the set B of the       *)
(*    specification's next state;                                          *)
(*  - a popcount must be the cardinality of the set of 1-bit positions;    *)
(*  - the solver must answer OK exactly when TLC finds full column rank,   *)
(*    and then return THE solution: with symbolic right-hand sides (row i  *)
(*    carries the unit vector e_i) the returned combinations must be a     *)
(*    left inverse of the matrix; with numeric consistent right-hand sides *)
(*    (NULL constant term = zero) the returned symbols must equal the      *)
(*    solution the specification derives by Gauss-Jordan elimination.      *)
(*    A NULL returned symbol is read as the zero symbol.                   *)
(* One trace line per TLC step; after the first divergence of an execution *)
(* its remaining lines are skipped (the next Reset resumes).               *)
(***************************************************************************)
EXTENDS DenseMatrix, Json, IOUtils

TraceLog == TLCGet(7)
LoadLog == TLCSet(7, ndJsonDeserialize(IOEnv.TRACE))

VARIABLES l, dead, cnt
vars == <<l, S, pt, dead, cnt>>

OpName == [dalloc |-> "allocate", dfree |-> "free", dget |-> "get", dset |-> "set", dflip |-> "flip", dclear |-> "clear",
           dcopy |-> "copy", dcopyrows |-> "copyrows", dcopycols |-> "copycols", dxor |-> "xor_rows", drw |-> "row_weight",
           drwi |-> "row_weight_ignore_first", dcw |-> "col_weight", dempty |-> "row_is_empty",
           hw32 |-> "hweight32", hw8 |-> "hweight8", hw64 |-> "popcount3", hwarr |-> "hweight-array", solve |-> "solve",
           none |-> "teardown"]
NameOf(op) == IF op \in DOMAIN OpName THEN OpName[op] ELSE op
TwoDense == {"dcopy", "dcopyrows", "dcopycols"}

Msg(ev, tags, name, ctx) == PrintT(<<"VMSG", l, ev.x, tags, name, 0, ctx>>)
Chk(ev, cond, name, ctx) == IF cond THEN TRUE ELSE Msg(ev, "C18", name, ctx) /\ FALSE
Always(x) == IF x THEN TRUE ELSE TRUE      \* evaluate a check (which prints when it fails) without disabling the step

DProjOK(ev, o, p, d, who) ==
    LET wrong == NameOf(o.op) \o "-wrong-result"
    IN  /\ Chk(ev, p.R = d.R /\ p.C = d.C, wrong, who \o ": dimensions")
        /\ Chk(ev, p.bits = [i \in 1 .. d.R |-> RowSeq(d.B, i - 1, d.C)], wrong,
               who \o ": bits read back with of_mod2dense_get differ from the bit-matrix model (" \o ToString(d.R) \o "x" \o ToString(d.C) \o ")")
        /\ (IF p.pad = 0 THEN TRUE ELSE PrintT(<<"DRIFT", l, ev.x, "non-zero padding bits after " \o o.op>>))

OpOf(ev) == Mk(ev.op, ev.a, ev.b, ev.r, ev.c, ev.v, ev.w)

MatrixStep(ev) ==
    LET o == OpOf(ev)
    IN  IF ~Enabled(S, o)
        THEN Msg(ev, "INFRA", "operation-outside-the-specified-use", ev.op) /\ dead' = TRUE /\ UNCHANGED <<S, cnt>>
        ELSE LET S2 == Apply(S, o)
                 wrong == NameOf(o.op) \o "-wrong-result"
                 ok == /\ (IF o.op = "dfree" THEN TRUE
                           ELSE Chk(ev, ev.ret = ARet(S, o), wrong, "returned " \o ToString(ev.ret) \o ", bit-matrix algebra gives " \o ToString(ARet(S, o))))
                       /\ DProjOK(ev, o, ev.da, S2.dn[o.a + 1], IF o.op \in TwoDense THEN "source" ELSE "matrix")
                       /\ (IF o.op \in TwoDense THEN DProjOK(ev, o, ev.db, S2.dn[o.b + 1], "destination") ELSE TRUE)
             IN  /\ S' = S2
                 /\ dead' = ~ok
                 /\ cnt' = [cnt EXCEPT !.mat = @ + 1]
                 /\ (IF MatTypeOK(S2.dn[o.a + 1]) /\ MatAbstraction(S2.dn[o.a + 1]) /\ MatPaddingZero(S2.dn[o.a + 1])
                        /\ (o.op \in TwoDense => MatAbstraction(S2.dn[o.b + 1]) /\ MatPaddingZero(S2.dn[o.b + 1]))
                     THEN TRUE ELSE Msg(ev, "INFRA", "model-invariant-broken", ev.op))

PopStep(ev) ==
    LET n == Cardinality(ToSet(ev.v))
        distinct == n = Len(ev.v)
        ok == CASE ev.op = "hw32" -> /\ Chk(ev, ev.q[1] = n, "hweight32-wrong", "of_hweight32 returned " \o ToString(ev.q[1]) \o " for a word with " \o ToString(n) \o " bits set")
                                     /\ Chk(ev, ev.q[2] = n, "hweight32-table-wrong", "of_hweight32_table returned " \o ToString(ev.q[2]) \o " for a word with " \o ToString(n) \o " bits set")
                                     /\ Chk(ev, ev.q[3] = n, "hweight32-naive-wrong", "of_hweight32_naive returned " \o ToString(ev.q[3]) \o " for a word with " \o ToString(n) \o " bits set")
                [] ev.op = "hw8"  -> Chk(ev, ev.q[1] = n, "hweight8-table-wrong", "of_hweight8_table returned " \o ToString(ev.q[1]) \o " for " \o ToString(n) \o " bits set")
                [] ev.op = "hw64" -> Chk(ev, ev.q[1] = n, "popcount3-wrong", "of_popcount_3 returned " \o ToString(ev.q[1]) \o " for " \o ToString(n) \o " bits set")
                [] ev.op = "hwarr" -> Chk(ev, ev.ret = n, "hweight-array-wrong", "of_hweight_array returned " \o ToString(ev.ret) \o " for " \o ToString(n) \o " bits set in " \o ToString(ev.r) \o " bits")
        range == CASE ev.op = "hw32" -> 32 [] ev.op = "hw8" -> 8 [] ev.op = "hw64" -> 64 [] OTHER -> ev.r
    IN  /\ (IF distinct /\ \A i \in DOMAIN ev.v : ev.v[i] \in 0 .. (range - 1) THEN Always(ok)
            ELSE Msg(ev, "INFRA", "operation-outside-the-specified-use", ev.op))
        /\ cnt' = [cnt EXCEPT !.pop = @ + 1]
        /\ UNCHANGED <<S, dead>>

SolveStep(ev) ==
    LET p == ev.r
        q == ev.c
        L == ev.v[1]
        M == [i \in 1 .. p |-> ToSet(ev.M[i])]
        null == ToSet(ev.null)
        rhs == [i \in 1 .. p |-> IF (i - 1) \in null THEN {} ELSE ToSet(ev.rhs[i])]
        sym == ev.a = 0
        inuse == /\ q >= 1 /\ q <= p /\ Len(ev.M) = p /\ Len(ev.rhs) = p
                 /\ \A i \in 1 .. p : M[i] \subseteq 0 .. (q - 1) /\ rhs[i] \subseteq 0 .. (8 * L - 1)
                 /\ (sym => null = {} /\ \A i \in 1 .. p : rhs[i] = {i - 1})
                 /\ \A i \in null : ToSet(ev.rhs[i + 1]) = {}
        full == FullColRank(M, q)
        okSt == ev.ret = 0
        sol == Solution(M, rhs, q)
        x == [j \in 1 .. q |-> ToSet(ev.sol[j])]
        T == [j \in 1 .. q |-> { i + 1 : i \in x[j] }]
        dims == ToString(p) \o "x" \o ToString(q) \o " L=" \o ToString(L)
    IN  /\ UNCHANGED <<S, dead>>
        /\ IF ~inuse \/ (~sym /\ ~sol.consistent)
           THEN Msg(ev, "INFRA", "operation-outside-the-specified-use", "solve") /\ UNCHANGED cnt
           ELSE /\ cnt' = [cnt EXCEPT !.full = @ + (IF full THEN 1 ELSE 0), !.deficient = @ + (IF full THEN 0 ELSE 1),
                                      !.nullconst = @ + (IF null # {} THEN 1 ELSE 0),
                                      !.nullsol = @ + (IF full /\ okSt /\ ev.xnull # <<>> THEN 1 ELSE 0)]
                /\ Always(Chk(ev, okSt <=> full, "solve-wrong-status",
                       IF full THEN "full column rank but status " \o ToString(ev.ret) \o " (" \o dims \o ")"
                       ELSE "rank " \o ToString(Rank(M, q)) \o " < " \o ToString(q) \o " but status OK (" \o dims \o ")"))
                /\ (IF "cs" \in DOMAIN ev
                    THEN /\ Always(Chk(ev, ev.cd = ev.cs, "copy-wrong-result", "copy of the matrix the solver worked on differs from it (" \o dims \o ")"))
                         /\ Always(Chk(ev, ev.rd = ev.rs, "copy-wrong-result", "copy over the matrix the solver worked on differs from its source (" \o dims \o ")"))
                    ELSE TRUE)
                /\ (IF okSt /\ full
                    THEN IF sym THEN Always(Chk(ev, (\A j \in 1 .. q : x[j] \subseteq 0 .. (p - 1)) /\ IsLeftInverse(M, q, T), "solve-wrong-solution",
                                                "returned combinations of the equations are not a left inverse of the matrix (" \o dims \o ")"))
                         ELSE Always(Chk(ev, x = sol.x, "solve-wrong-solution", "returned symbols differ from the unique solution (" \o dims \o ")"))
                    ELSE TRUE)

FaultKey(ev) ==
    "memfault-" \o NameOf(ev.op) \o (IF ev.op = "solve" /\ ev.b > 0 THEN "-null-constant-term" ELSE "")

Cnt0 == [mat |-> 0, pop |-> 0, full |-> 0, deficient |-> 0, nullconst |-> 0, nullsol |-> 0, faults |-> 0]

TInit == LoadLog /\ l = 1 /\ S = S0 /\ pt = <<>> /\ dead = FALSE /\ cnt = Cnt0

TNext ==
    /\ l <= Len(TraceLog)
    /\ l' = l + 1
    /\ UNCHANGED pt
    /\ LET ev == TraceLog[l]
       IN  CASE ev.e = "Reset" -> S' = S0 /\ dead' = FALSE /\ UNCHANGED cnt
             [] ev.e = "MemFault" -> /\ (IF dead THEN TRUE ELSE Msg(ev, "C18", FaultKey(ev), ev.what))
                                     /\ dead' = TRUE /\ cnt' = [cnt EXCEPT !.faults = @ + 1] /\ UNCHANGED S
             [] ev.e = "Proto" -> Msg(ev, "INFRA", "driver-protocol-error", ev.why) /\ dead' = TRUE /\ UNCHANGED <<S, cnt>>
             [] ev.e = "Op" -> IF dead THEN UNCHANGED <<S, dead, cnt>>
                               ELSE IF ev.op \in {"hw32", "hw8", "hw64", "hwarr"} THEN PopStep(ev)
                               ELSE IF ev.op = "solve" THEN SolveStep(ev)
                               ELSE MatrixStep(ev)
    /\ (IF l = Len(TraceLog) THEN PrintT(<<"STAT", cnt'.mat, cnt'.pop, cnt'.full, cnt'.deficient, cnt'.nullconst, cnt'.nullsol, cnt'.faults>>) ELSE TRUE)

TraceSpec == TInit /\ [][TNext]_vars
TraceConsumed == TLCGet("stats").diameter - 1 = Len(TraceLog)
=============================================================================
