INIT Init
NEXT Next
INVARIANTS MulAgrees MulCommutes InvIsInverse NoZeroDivisors Distinct PowAgrees
CHECK_DEADLOCK FALSE
