---------------------------- MODULE PchkRfc5170 ----------------------------
(***************************************************************************)
(* The LDPC-Staircase parity-check matrix of RFC 5170 (section 5.3.1 /     *)
(* 6.2: left_matrix_init + staircase), written from the RFC text with the  *)
(* Park-Miller generator of module ParkMiller.  It is the *definition* the *)
(* implementation is compared with; nothing is imported from the C code.   *)
(*                                                                         *)
(* Rows are numbered 0 .. r-1 (r = n-k); source columns by source ESI      *)
(* 0 .. k-1; repair symbol i (ESI k+i) owns staircase column i.            *)
(*                                                                         *)
(* Deviation from the RFC text, named: the RFC's second completion loop    *)
(* ("row of degree 1: draw until a new column is found") cannot terminate  *)
(* when k = 1; like the implementation the definition skips it then.       *)
(***************************************************************************)
EXTENDS Naturals, Integers, Sequences, FiniteSets, SequencesExt, ParkMiller

(* state of the construction *)
\* s : PRNG state; u : 0..L-1 -> row; t : left limit; M : set of <<row, source index>>;
\* draws : number of PRNG calls; ins : sequence of insertions <<row, col, phase>>

RECURSIVE DrawFromList(_, _, _, _)      \* do { i = t + rand(L-t) } while has(u[i], j)
DrawFromList(st, j, L, fuel) ==
    LET d == PMRand(st.s, L - st.t)
        i == st.t + d[2]
        st1 == [st EXCEPT !.s = d[1], !.draws = st.draws + 1]
    IN  IF <<st.u[i], j>> \in st.M /\ fuel > 0
        THEN DrawFromList(st1, j, L, fuel - 1)
        ELSE [st1 EXCEPT !.M = st.M \cup { <<st.u[i], j>> },
                         !.u = [st.u EXCEPT ![i] = st.u[st.t]],
                         !.t = st.t + 1,
                         !.ins = Append(st.ins, <<st.u[i], j, 0>>)]

RECURSIVE DrawRow(_, _, _, _)           \* do { i = rand(r) } while has(i, j)
DrawRow(st, j, r, fuel) ==
    LET d == PMRand(st.s, r)
        st1 == [st EXCEPT !.s = d[1], !.draws = st.draws + 1]
    IN  IF <<d[2], j>> \in st.M /\ fuel > 0
        THEN DrawRow(st1, j, r, fuel - 1)
        ELSE [st1 EXCEPT !.M = st.M \cup { <<d[2], j>> }, !.ins = Append(st.ins, <<d[2], j, 1>>)]

Fuel == 90   \* bound on retries of one draw loop (TLC recursion depth); never reached in practice

LeftSlot(st, j, L, r) ==
    IF \E i \in st.t .. (L - 1) : <<st.u[i], j>> \notin st.M
    THEN DrawFromList(st, j, L, Fuel)
    ELSE DrawRow(st, j, r, Fuel)

RECURSIVE DrawCol(_, _, _, _)           \* do { j = rand(k) } while has(i, j)
DrawCol(st, i, k, fuel) ==
    LET d == PMRand(st.s, k)
        st1 == [st EXCEPT !.s = d[1], !.draws = st.draws + 1]
    IN  IF <<i, d[2]>> \in st.M /\ fuel > 0
        THEN DrawCol(st1, i, k, fuel - 1)
        ELSE [st1 EXCEPT !.M = st.M \cup { <<i, d[2]>> }, !.ins = Append(st.ins, <<i, d[2], 3>>), !.added = st.added + 1]

RowDeg(M, i) == Cardinality({ e \in M : e[1] = i })

CompleteRow(st, i, k) ==
    LET st1 == IF RowDeg(st.M, i) = 0
               THEN LET d == PMRand(st.s, k)
                    IN  [st EXCEPT !.s = d[1], !.draws = st.draws + 1, !.M = st.M \cup { <<i, d[2]>> },
                                   !.ins = Append(st.ins, <<i, d[2], 2>>), !.added = st.added + 1]
               ELSE st
    IN  IF RowDeg(st1.M, i) = 1 /\ k > 1 THEN DrawCol(st1, i, k, Fuel) ELSE st1

LeftMatrix(k, r, N1, seed) ==
    LET L   == N1 * k
        st0 == [ s |-> seed, u |-> [ h \in 0 .. (L - 1) |-> h % r ], t |-> 0, M |-> {}, draws |-> 0,
                 ins |-> <<>>, added |-> 0 ]
        slots == [ x \in 1 .. L |-> (x - 1) \div N1 ]         \* column of each of the k*N1 slots
        st1 == FoldLeft(LAMBDA st, j : LeftSlot(st, j, L, r), st0, slots)
    IN  FoldLeft(LAMBDA st, i : CompleteRow(st, i, k), st1, [ x \in 1 .. r |-> x - 1 ])

(* the parity-check system as rows of ESIs: source j -> ESI j, repair i -> ESI k+i *)
HFromLeft(M, k, r) ==
    [ x \in 1 .. r |->
        LET i == x - 1
        IN  { e[2] : e \in { f \in M : f[1] = i } } \cup { k + i } \cup (IF i > 0 THEN { k + i - 1 } ELSE {}) ]

Rfc5170(k, r, N1, seed) ==
    LET lm == LeftMatrix(k, r, N1, seed)
    IN  [ H |-> HFromLeft(lm.M, k, r), extra |-> lm.added > 0, draws |-> lm.draws, final |-> lm.s, ins |-> lm.ins ]

Rfc5170H(k, r, N1, seed) == Rfc5170(k, r, N1, seed).H

=============================================================================
