------------------------------ MODULE Blocking ------------------------------
(***************************************************************************)
(* Block partitioning of RFC 5052 (section 9.1), as property C20 states    *)
(* it: for object length L, symbol size E, maximum block size B (>= 1)     *)
(*     T       = ceil(L / E)      number of source symbols                 *)
(*     N       = ceil(T / B)      number of blocks                         *)
(*     A_small = floor(T / N),  A_large = ceil(T / N)  ( <= B )            *)
(*     I       = T - A_small * N  blocks of A_large symbols                *)
(*     I * A_large + (N - I) * A_small = T                                 *)
(* over exact integers.  Two transcriptions of the same definition:        *)
(* BlockingI on TLC's native integers (all quantities below 2^30) and      *)
(* BlockingW on Nat64 digit tuples (anything up to 2^32-1).  Module        *)
(* BlockingModel checks that they agree and that the stated consequences   *)
(* follow.                                                                 *)
(***************************************************************************)
EXTENDS Naturals, Integers, Sequences, Nat64

CeilDivI(a, b) == (a + b - 1) \div b

BlockingI(B, L, E) ==
    LET T  == CeilDivI(L, E)
        N  == CeilDivI(T, B)
        As == T \div N
        Al == CeilDivI(T, N)
        I  == T - As * N
    IN  [T |-> T, N |-> N, I |-> I, Al |-> Al, As |-> As]

BlockingW(B, L, E) ==
    LET dT == NDivMod32(L, E)
        T  == IF dT.r = NZero THEN dT.q ELSE NAdd(dT.q, NOne)
        dN == NDivMod32(T, B)
        N  == IF dN.r = NZero THEN dN.q ELSE NAdd(dN.q, NOne)
        dA == NDivMod32(T, N)
        As == dA.q
        Al == IF dA.r = NZero THEN dA.q ELSE NAdd(dA.q, NOne)
        I  == NSub(T, NMul(As, N))
    IN  [T |-> T, N |-> N, I |-> I, Al |-> Al, As |-> As,
         \* every division above satisfies its defining property  q*b + r = a, r < b
         ok |-> DivModOk(L, E, dT) /\ DivModOk(T, B, dN) /\ DivModOk(T, N, dA)]

(***************************************************************************)
(* Which conjunct of the statement does an observed structure              *)
(* o = <<N, I, A_large, A_small>> violate first ("" = none)?  The later    *)
(* conjuncts are stated in terms of N, so they are only examined once N    *)
(* is right; the sum only once the two block sizes are right.  I is held   *)
(* to what the statement says about it: 0 <= I <= N and the sum.           *)
(***************************************************************************)
FailI(B, L, E, o) ==
    LET X == BlockingI(B, L, E) IN
    IF o[1] # X.N THEN "nb-blocks-wrong"
    ELSE IF o[4] # X.As THEN "a-small-wrong"
    ELSE IF o[3] # X.Al THEN "a-large-wrong"
    ELSE IF o[3] > B THEN "a-large-exceeds-B"
    ELSE IF o[2] < 0 \/ o[2] > o[1] THEN "I-exceeds-N"
    ELSE IF o[2] * o[3] + (o[1] - o[2]) * o[4] # X.T THEN "sum-differs-from-T"
    ELSE ""

FailW(B, L, E, o, X) ==           \* X = BlockingW(B, L, E)
    IF o[1] # X.N THEN "nb-blocks-wrong"
    ELSE IF o[4] # X.As THEN "a-small-wrong"
    ELSE IF o[3] # X.Al THEN "a-large-wrong"
    ELSE IF NLess(B, o[3]) THEN "a-large-exceeds-B"
    ELSE IF NLess(o[1], o[2]) THEN "I-exceeds-N"
    ELSE IF NAdd(NMul(o[2], o[3]), NMul(NSub(o[1], o[2]), o[4])) # X.T THEN "sum-differs-from-T"
    ELSE ""

N2p31 == <<0, 0, 2, 0, 0>>
=============================================================================
