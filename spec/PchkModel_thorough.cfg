INIT Init
NEXT Next
CONSTANTS
  MaxK = 10
  MaxR = 9
  Seeds = {1, 2, 3, 5, 8, 13, 21, 34, 55, 89, 144, 233, 377, 610, 987, 1597, 2584, 4181, 6765, 2147483646}
INVARIANTS Staircase ColumnWeights RowDegrees LastNullLemma EncoderDefined
CHECK_DEADLOCK FALSE
