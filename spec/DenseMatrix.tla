---------------------------- MODULE DenseMatrix ----------------------------
(***************************************************************************)
(* Dense GF(2) matrix of the library (of_matrix_dense.c, row oriented),    *)
(* the popcount helpers (of_hamming_weight.c) and the symbol-level solver  *)
(* of ML decoding (of_linear_binary_code_solve_dense_system).              *)
(*                                                                         *)
(* A matrix carries                                                        *)
(*   B   the ABSTRACT value: the set of <<row, column>> positions holding 1 *)
(*   w   the packing: per row NW = ceil(C / WordSize) words, a word being  *)
(*       the set of its 1-bit indices (bit b of word k is column           *)
(*       (k-1)*WordSize + b: "shift 5, mask 31" when WordSize = 32).       *)
(* Operations are defined on the words, as the code does; the invariants   *)
(* say that the words always represent B, that padding bits stay 0, and    *)
(* that every query computed from the words (get, row/column weight,       *)
(* weight ignoring the first words, emptiness) is the bit-matrix answer.   *)
(* WordSize = 32 for conformance, 2 for exhaustive exploration on 3x3.     *)
(*                                                                         *)
(* Solver: Rank / UniqueSolution are definitional (Gauss-Jordan of GF2);   *)
(* SolveImpl is the algorithm of of_ml_tool.c (first pivot at or below the *)
(* diagonal, swap of row and constant term, elimination below, back        *)
(* substitution from the last column) over symbolic constant terms;        *)
(* SolverLemmas relates the two on every system up to MaxP x MaxP.         *)
(***************************************************************************)
EXTENDS Naturals, Integers, Sequences, FiniteSets, TLC, SequencesExt, FiniteSetsExt, Functions, GF2

CONSTANTS WordSize,          \* 32 in the code
          Dims,              \* dimensions offered to allocate (model checking)
          NDense,            \* number of slots
          MaxP               \* solver lemmas: all p x q systems with q <= p <= MaxP

VARIABLES S,                 \* [dn : sequence of dense matrices]
          pt                 \* a linear system [p, q, M]  (solver lemmas)

NW(C) == (C + WordSize - 1) \div WordSize
NilD == [R |-> 0, C |-> 0, B |-> {}, w |-> <<>>]
S0   == [dn |-> [i \in 1 .. NDense |-> NilD]]
New(R, C) == [R |-> R, C |-> C, B |-> {}, w |-> [i \in 1 .. R |-> [k \in 1 .. NW(C) |-> {}]]]

Mk(op, a, b, r, c, v, w) == [op |-> op, a |-> a, b |-> b, r |-> r, c |-> c, v |-> v, w |-> w]

RowSet(B, r, C) == { c \in 0 .. (C - 1) : <<r, c>> \in B }
ColSet(B, c, R) == { r \in 0 .. (R - 1) : <<r, c>> \in B }
RowSeq(B, r, C) == SetToSortSeq(RowSet(B, r, C), <)

(***************************************************************************)
(* Word level (what the code does).                                        *)
(***************************************************************************)
WIdx(c) == (c \div WordSize) + 1
BIdx(c) == c % WordSize
WGet(d, r, c) == IF BIdx(c) \in d.w[r + 1][WIdx(c)] THEN 1 ELSE 0
WPut(d, r, c, val) == [d EXCEPT !.w[r + 1][WIdx(c)] = IF val # 0 THEN @ \cup {BIdx(c)} ELSE @ \ {BIdx(c)}]
Pad(word, from, n) == [k \in 1 .. n |-> IF k <= Len(word) THEN word[k] ELSE {}]      \* copy of a row into a row of n words

WRowWeight(d, r) == Cardinality({ c \in 0 .. (d.C - 1) : WGet(d, r, c) = 1 })
WColWeight(d, c) == Cardinality({ r \in 0 .. (d.R - 1) : WGet(d, r, c) = 1 })
WRowEmpty(d, r)  == \A k \in 1 .. NW(d.C) : d.w[r + 1][k] = {}
WRowWeightIgnore(d, r, nb) == FoldLeft(LAMBDA acc, k : acc + Cardinality(d.w[r + 1][k]), 0,
                                       [k \in 1 .. (NW(d.C) - nb \div WordSize) |-> nb \div WordSize + k])

(***************************************************************************)
(* Operations.                                                             *)
(***************************************************************************)
DnLive(S_, a) == a \in 0 .. (NDense - 1) /\ S_.dn[a + 1].R > 0
InRange(v, n) == \A i \in DOMAIN v : v[i] \in 0 .. (n - 1)

Enabled(S_, o) ==
    LET A == S_.dn[o.a + 1]
        B == S_.dn[o.b + 1]
    IN  CASE o.op = "dalloc" -> o.a \in 0 .. (NDense - 1) /\ A.R = 0 /\ o.r >= 1 /\ o.c >= 1
          [] o.op \in {"dfree", "dclear"} -> DnLive(S_, o.a)
          [] o.op \in {"dget", "dflip"} -> DnLive(S_, o.a) /\ o.r \in 0 .. (A.R - 1) /\ o.c \in 0 .. (A.C - 1)
          [] o.op = "dset" -> DnLive(S_, o.a) /\ o.r \in 0 .. (A.R - 1) /\ o.c \in 0 .. (A.C - 1) /\ o.b \in {0, 1}
          [] o.op = "dcopy" -> DnLive(S_, o.a) /\ DnLive(S_, o.b) /\ o.a # o.b /\ A.R <= B.R /\ A.C <= B.C
          [] o.op = "dcopyrows" -> /\ DnLive(S_, o.a) /\ DnLive(S_, o.b) /\ o.a # o.b /\ A.C <= B.C
                                   /\ Len(o.v) = B.R /\ InRange(o.v, A.R)
          [] o.op = "dcopycols" -> /\ DnLive(S_, o.a) /\ DnLive(S_, o.b) /\ o.a # o.b /\ A.R <= B.R
                                   /\ Len(o.v) = B.C /\ InRange(o.v, A.C)
                                   \* rows of the destination beyond the source's row count: the code leaves them, the
                                   \* original documentation zeroes them; specified only where both agree
                                   /\ \A e \in B.B : e[1] < A.R
          [] o.op = "dxor" -> DnLive(S_, o.a) /\ o.r \in 0 .. (A.R - 1) /\ o.c \in 0 .. (A.R - 1)
          [] o.op \in {"drw", "dempty"} -> DnLive(S_, o.a) /\ o.r \in 0 .. (A.R - 1)
          [] o.op = "drwi" -> DnLive(S_, o.a) /\ o.r \in 0 .. (A.R - 1) /\ o.c \in 0 .. A.C /\ o.c % WordSize = 0
          [] o.op = "dcw" -> DnLive(S_, o.a) /\ o.c \in 0 .. (A.C - 1)
          [] OTHER -> FALSE

Apply(S_, o) ==
    LET A == S_.dn[o.a + 1]
        B == S_.dn[o.b + 1]
        SetA(m) == [S_ EXCEPT !.dn[o.a + 1] = m]
        SetB(m) == [S_ EXCEPT !.dn[o.b + 1] = m]
    IN  CASE o.op = "dalloc" -> SetA(New(o.r, o.c))
          [] o.op = "dfree"  -> SetA(NilD)
          [] o.op = "dclear" -> SetA(New(A.R, A.C))
          [] o.op = "dset"   -> SetA([WPut(A, o.r, o.c, o.b) EXCEPT !.B = IF o.b # 0 THEN @ \cup {<<o.r, o.c>>} ELSE @ \ {<<o.r, o.c>>}])
          [] o.op = "dflip"  -> SetA([WPut(A, o.r, o.c, 1 - WGet(A, o.r, o.c)) EXCEPT !.B = SymDiff(@, {<<o.r, o.c>>})])
          [] o.op = "dcopy"  -> SetB([B EXCEPT !.B = A.B,
                                               !.w = [i \in 1 .. B.R |-> IF i <= A.R THEN Pad(A.w[i], 1, NW(B.C)) ELSE [k \in 1 .. NW(B.C) |-> {}]]])
          [] o.op = "dcopyrows" -> SetB([B EXCEPT !.B = { <<i - 1, c>> : i \in 1 .. B.R, c \in 0 .. (A.C - 1) } \cap
                                                        { e \in (0 .. (B.R - 1)) \X (0 .. (A.C - 1)) : <<o.v[e[1] + 1], e[2]>> \in A.B },
                                                  !.w = [i \in 1 .. B.R |-> Pad(A.w[o.v[i] + 1], 1, NW(B.C))]])
          [] o.op = "dcopycols" ->
                SetB([B EXCEPT !.B = { e \in (0 .. (A.R - 1)) \X (0 .. (B.C - 1)) : <<e[1], o.v[e[2] + 1]>> \in A.B },
                               !.w = [i \in 1 .. B.R |-> IF i > A.R THEN B.w[i]
                                                         ELSE [k \in 1 .. NW(B.C) |->
                                                                 { b \in 0 .. (WordSize - 1) : (k - 1) * WordSize + b < B.C
                                                                       /\ WGet(A, i - 1, o.v[(k - 1) * WordSize + b + 1]) = 1 }]]])
          [] o.op = "dxor"   -> SetA([A EXCEPT !.w[o.c + 1] = [k \in 1 .. NW(A.C) |-> SymDiff(A.w[o.c + 1][k], A.w[o.r + 1][k])],
                                               !.B = { e \in @ : e[1] # o.c } \cup { <<o.c, c>> : c \in SymDiff(RowSet(A.B, o.c, A.C), RowSet(A.B, o.r, A.C)) }])
          [] o.op \in {"dget", "drw", "drwi", "dcw", "dempty"} -> S_

(* value returned by an operation, as bit-matrix algebra defines it (A = the matrix BEFORE the operation) *)
ARet(S_, o) ==
    LET A == S_.dn[o.a + 1]
    IN  CASE o.op = "dalloc" -> 1
          [] o.op = "dget"   -> IF <<o.r, o.c>> \in A.B THEN 1 ELSE 0
          [] o.op = "dflip"  -> IF <<o.r, o.c>> \in A.B THEN 0 ELSE 1
          [] o.op = "drw"    -> Cardinality(RowSet(A.B, o.r, A.C))
          [] o.op = "drwi"   -> Cardinality({ c \in RowSet(A.B, o.r, A.C) : c >= o.c })
          [] o.op = "dcw"    -> Cardinality(ColSet(A.B, o.c, A.R))
          [] o.op = "dempty" -> IF RowSet(A.B, o.r, A.C) = {} THEN 1 ELSE 0
          [] OTHER -> 0

(* the same value computed from the words, as the code computes it *)
WRet(S_, o) ==
    LET A == S_.dn[o.a + 1]
    IN  CASE o.op = "dalloc" -> 1
          [] o.op = "dget"   -> WGet(A, o.r, o.c)
          [] o.op = "dflip"  -> 1 - WGet(A, o.r, o.c)
          [] o.op = "drw"    -> WRowWeight(A, o.r)
          [] o.op = "drwi"   -> WRowWeightIgnore(A, o.r, o.c)
          [] o.op = "dcw"    -> WColWeight(A, o.c)
          [] o.op = "dempty" -> IF WRowEmpty(A, o.r) THEN 1 ELSE 0
          [] OTHER -> 0

(***************************************************************************)
(* Model checking of the matrix operations.                                *)
(***************************************************************************)
DSlots == 0 .. (NDense - 1)
MaxR == IF Dims = {} THEN 0 ELSE Max({ d[1] : d \in Dims })
MaxC == IF Dims = {} THEN 0 ELSE Max({ d[2] : d \in Dims })
IdxSeqs(n, k) == [1 .. n -> 0 .. (k - 1)]

Candidates(S_) ==
    LET dn(a) == S_.dn[a + 1]
    IN  { Mk("dalloc", a, 0, d[1], d[2], <<>>, <<>>) : a \in DSlots, d \in Dims }
        \cup { Mk(op, a, 0, 0, 0, <<>>, <<>>) : op \in {"dfree", "dclear"}, a \in DSlots }
        \cup { Mk("dflip", a, 0, r, c, <<>>, <<>>) : a \in DSlots, r \in 0 .. (MaxR - 1), c \in 0 .. (MaxC - 1) }
        \cup { Mk("dset", a, val, r, c, <<>>, <<>>) : a \in DSlots, val \in {0, 1}, r \in 0 .. (MaxR - 1), c \in 0 .. (MaxC - 1) }
        \cup { Mk("dxor", a, 0, r, c, <<>>, <<>>) : a \in DSlots, r \in 0 .. (MaxR - 1), c \in 0 .. (MaxR - 1) }
        \cup { Mk("dcopy", a, b, 0, 0, <<>>, <<>>) : a \in DSlots, b \in DSlots }
        \cup UNION { { Mk("dcopyrows", a, b, 0, 0, v, <<>>) : v \in IdxSeqs(dn(b).R, dn(a).R) } : a \in DSlots, b \in DSlots }
        \cup UNION { { Mk("dcopycols", a, b, 0, 0, v, <<>>) : v \in IdxSeqs(dn(b).C, dn(a).C) } : a \in DSlots, b \in DSlots }

Queries(a, d) ==
    { Mk(op, a, 0, r, c, <<>>, <<>>) : op \in {"dget", "dflip"}, r \in 0 .. (d.R - 1), c \in 0 .. (d.C - 1) }
    \cup { Mk(op, a, 0, r, 0, <<>>, <<>>) : op \in {"drw", "dempty"}, r \in 0 .. (d.R - 1) }
    \cup { Mk("drwi", a, 0, r, nb, <<>>, <<>>) : r \in 0 .. (d.R - 1), nb \in { x \in 0 .. d.C : x % WordSize = 0 } }
    \cup { Mk("dcw", a, 0, 0, c, <<>>, <<>>) : c \in 0 .. (d.C - 1) }

DimsNone   == {}
DimsTiny   == {<<2, 2>>, <<2, 3>>}
DimsSmall  == {<<1, 3>>, <<2, 2>>, <<2, 3>>, <<3, 2>>, <<3, 3>>}
DimsAll3   == (1 .. 3) \X (1 .. 3)

Init == S = S0 /\ pt = <<>>
Next == (\E o \in Candidates(S) : Enabled(S, o) /\ S' = Apply(S, o)) /\ UNCHANGED pt

MatTypeOK(d) ==
    /\ d.B \subseteq (0 .. (d.R - 1)) \X (0 .. (d.C - 1))
    /\ DOMAIN d.w = 1 .. d.R /\ \A i \in 1 .. d.R : DOMAIN d.w[i] = 1 .. NW(d.C)
(* the words represent exactly B; in particular the padding bits of the last word are 0 *)
MatAbstraction(d) == d.B = UNION { { <<i - 1, (k - 1) * WordSize + b>> : b \in d.w[i][k] } : i \in 1 .. d.R, k \in 1 .. NW(d.C) }
MatPaddingZero(d) == \A i \in 1 .. d.R, k \in 1 .. NW(d.C) : \A b \in d.w[i][k] : b \in 0 .. (WordSize - 1) /\ (k - 1) * WordSize + b < d.C

TypeOK      == \A i \in 1 .. NDense : MatTypeOK(S.dn[i])
Abstraction == \A i \in 1 .. NDense : MatAbstraction(S.dn[i])
PaddingZero == \A i \in 1 .. NDense : MatPaddingZero(S.dn[i])
(* every query answered from the words is the answer of bit-matrix algebra *)
ResultsAgree == \A a \in DSlots : \A o \in Queries(a, S.dn[a + 1]) : Enabled(S, o) => WRet(S, o) = ARet(S, o)

(***************************************************************************)
(* Linear systems over GF(2).  M is a sequence of p rows, a row the set of *)
(* its columns in 0 .. q-1.  A vector of symbols is a set (of basis        *)
(* elements); addition is symmetric difference.                            *)
(***************************************************************************)
Rank(M, q) == Cardinality(GaussJordan({ M[i] : i \in DOMAIN M }, 0 .. (q - 1)).piv)
FullColRank(M, q) == Rank(M, q) = q
Combine(M, T) == XorAll({ M[i] : i \in T })    \* NOT used for duplicates: see CombineSeq
CombineSeq(M, T) == XorSeq([k \in 1 .. Cardinality(T) |-> M[SetToSeq(T)[k]]])   \* XOR of the rows of M whose (1-based) indices are in T

(* the unique solution of M x = rhs (rhs[i] a set), defined by Gauss-Jordan elimination of the augmented rows *)
Augmented(M, rhs, q) == { M[i] \cup { q + b : b \in rhs[i] } : i \in DOMAIN M }
Solution(M, rhs, q) ==
    LET gj == GaussJordan(Augmented(M, rhs, q), 0 .. (q - 1))
    IN  [full |-> Cardinality(gj.piv) = q,
         consistent |-> gj.rest = {},
         x |-> [j \in 1 .. q |-> LET pr == { pv \in gj.piv : pv[1] = j - 1 }
                                IN  IF pr = {} THEN {} ELSE { b - q : b \in { y \in (CHOOSE pv \in pr : TRUE)[2] : y >= q } }]]

(* of_ml_tool.c over symbolic constant terms: cst[i] = set of (1-based) indices of the original equations summed into row i *)
FwdStep(st, i) ==
    IF ~st.ok THEN st
    ELSE LET p == Len(st.rows)
             cand == { j \in (i + 1) .. p : i \in st.rows[j] }
         IN  IF cand = {} THEN [st EXCEPT !.ok = FALSE]
             ELSE LET j == Min(cand)
                      sw(f) == [f EXCEPT ![i + 1] = f[j], ![j] = f[i + 1]]
                      rows1 == sw(st.rows)
                      cst1 == sw(st.cst)
                  IN  [ok |-> TRUE,
                       rows |-> [k \in 1 .. p |-> IF k > i + 1 /\ i \in rows1[k] THEN SymDiff(rows1[k], rows1[i + 1]) ELSE rows1[k]],
                       cst  |-> [k \in 1 .. p |-> IF k > i + 1 /\ i \in rows1[k] THEN SymDiff(cst1[k], cst1[i + 1]) ELSE cst1[k]]]

SolveImpl(M, q) ==
    LET p == Len(M)
        tri == FoldLeft(FwdStep, [ok |-> TRUE, rows |-> M, cst |-> [i \in 1 .. p |-> {i}]], [i \in 1 .. q |-> i - 1])
        back(x, i) == [x EXCEPT ![i + 1] = FoldLeft(LAMBDA acc, j : IF j \in tri.rows[i + 1] THEN SymDiff(acc, x[j + 1]) ELSE acc,
                                                    tri.cst[i + 1], [k \in 1 .. (q - 1 - i) |-> i + k])]
    IN  [ok |-> tri.ok,
         T |-> IF tri.ok THEN FoldLeft(back, [j \in 1 .. q |-> {}], [k \in 1 .. q |-> q - k]) ELSE <<>>]

(* a returned table of combinations T (T[j] = set of 1-based equation indices) solves every consistent system with matrix M *)
IsLeftInverse(M, q, T) == \A j \in 1 .. q : CombineSeq(M, T[j]) = {j - 1}

(* all p x q systems, q <= p <= MaxP, built row by row (so that TLC spreads them over its workers) *)
SolveInit == S = S0 /\ pt \in { [p |-> p, q |-> q, M |-> <<>>] : p \in 1 .. MaxP, q \in 1 .. MaxP } /\ pt.q <= pt.p
SolveNext == /\ Len(pt.M) < pt.p
             /\ \E row \in SUBSET (0 .. (pt.q - 1)) : pt' = [pt EXCEPT !.M = Append(@, row)]
             /\ UNCHANGED S
Complete == Len(pt.M) = pt.p

(* success iff full column rank; on success the combinations are a left inverse, hence give THE solution *)
SolverLemmas ==
    Complete =>
        LET r == SolveImpl(pt.M, pt.q)
        IN  /\ r.ok <=> FullColRank(pt.M, pt.q)
            /\ r.ok => IsLeftInverse(pt.M, pt.q, r.T)
(* with the consistent right-hand side rhs = M x0 for x0[j] = {j}, Solution returns x0 exactly when the rank is full *)
SolutionLemma ==
    Complete =>
        LET sol == Solution(pt.M, pt.M, pt.q)
        IN  /\ sol.consistent
            /\ sol.full <=> FullColRank(pt.M, pt.q)
            /\ sol.full => sol.x = [j \in 1 .. pt.q |-> {j - 1}]
=============================================================================
