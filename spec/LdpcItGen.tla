----------------------------- MODULE LdpcItGen -----------------------------
(***************************************************************************)
(* Behaviour generator: TLC -simulate walks the IT decoder model and, at    *)
(* the end of each walk, prints the parameter point, the arrival sequence   *)
(* and the model's expectation (available sources after each step) as one   *)
(* JSON line ("BEH ...").  of_driver replays these behaviours in the real   *)
(* decoder and the recorded trace goes back through ApiTrace/LdpcItTrace.   *)
(* Walks are biased towards the interesting region: they stop when decoding *)
(* completes or after n + 3 arrivals (duplicates included).                 *)
(***************************************************************************)
EXTENDS LdpcIt_MC, Json

VARIABLES seq, done
gvars == <<pt, tab, M, unk, deg, ct, nrep, led, rcvd, nullderef, seq, done>>

GInit == Init /\ seq = <<>> /\ done = FALSE

AvailNow == { i \in 0 .. (pt.k - 1) : tab[i] # NoVal }

GRecv(e) ==
    /\ ~done
    /\ Recv(e)
    /\ seq' = Append(seq, e)
    /\ UNCHANGED done

Finishing ==
    /\ ~done
    /\ (Complete \/ Len(seq) >= N(pt) + 3)
    /\ PrintT("BEH " \o ToJson([k |-> pt.k, r |-> pt.r, N1 |-> pt.N1, seed |-> pt.seed, seq |-> seq,
                                avail |-> SetToSortSeq(AvailNow, LAMBDA a, b : a < b), complete |-> Complete]))
    /\ done' = TRUE
    /\ UNCHANGED <<pt, tab, M, unk, deg, ct, nrep, led, rcvd, nullderef, seq>>

(* one random successor per step (TLC!RandomElement): a random walk, not an enumeration *)
GNext == Finishing \/ (~(Complete \/ Len(seq) >= N(pt) + 3) /\ GRecv(RandomElement(0 .. (N(pt) - 1))))

GSpec == GInit /\ [][GNext]_gvars
=============================================================================
