SPECIFICATION Spec
CONSTANTS M = 4
 MaxK = 3
 Pool = {0,1,2,3,15,16,17}
INVARIANTS DecodeOK
CHECK_DEADLOCK FALSE
