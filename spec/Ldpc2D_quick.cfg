SPECIFICATION MSpec
CONSTANT UseCb = FALSE
CONSTANT Points <- Pts2DQuick
INVARIANTS MlComplete MlStatus MlSound MlNoNullDest MlIndexInRange ItBeforeFinish SingleLoss IsProduct
CHECK_DEADLOCK FALSE
