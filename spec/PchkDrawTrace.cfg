SPECIFICATION TraceSpec
CHECK_DEADLOCK FALSE
POSTCONDITION TraceConsumed
