------------------------------- MODULE Nat64 -------------------------------
(***************************************************************************)
(* Exact natural-number arithmetic beyond TLC's 32-bit integers.           *)
(* A number below 2^75 is a tuple of ND = 5 little-endian digits in base   *)
(* NB = 2^15:  value(x) = x[1] + x[2]*2^15 + x[3]*2^30 + x[4]*2^45 +       *)
(* x[5]*2^60.  Every intermediate of every operator stays below 2^31       *)
(* (digit*digit < 2^30, plus carries).  The drivers log 32-bit and 64-bit  *)
(* quantities of the C code in exactly this form (3 resp. 5 digits).       *)
(***************************************************************************)
EXTENDS Naturals, Integers, Sequences, SequencesExt

NB == 32768
ND == 5

IsN(x) == Len(x) = ND /\ \A i \in 1 .. ND : x[i] >= 0 /\ x[i] < NB

NZero == <<0, 0, 0, 0, 0>>
NOne  == <<1, 0, 0, 0, 0>>

(* pad a shorter digit tuple (e.g. the 3 digits of a 32-bit value) *)
NPad(d) == [ i \in 1 .. ND |-> IF i <= Len(d) THEN d[i] ELSE 0 ]

FromInt(n) == <<n % NB, (n \div NB) % NB, n \div (NB * NB), 0, 0>>      \* 0 <= n < 2^31

Fits31(x) == x[5] = 0 /\ x[4] = 0 /\ x[3] <= 1                          \* value(x) < 2^31
ToInt(x)  == x[1] + NB * x[2] + (NB * NB) * x[3]                        \* only when Fits31(x)
Fits32(x) == x[5] = 0 /\ x[4] = 0 /\ x[3] <= 3                          \* value(x) < 2^32

NLess(x, y) ==
    IF x[5] # y[5] THEN x[5] < y[5] ELSE
    IF x[4] # y[4] THEN x[4] < y[4] ELSE
    IF x[3] # y[3] THEN x[3] < y[3] ELSE
    IF x[2] # y[2] THEN x[2] < y[2] ELSE x[1] < y[1]
NLeq(x, y) == ~NLess(y, x)

NAdd(x, y) ==                       \* value(x) + value(y), which must be < 2^75
    LET s1 == x[1] + y[1]
        s2 == x[2] + y[2] + s1 \div NB
        s3 == x[3] + y[3] + s2 \div NB
        s4 == x[4] + y[4] + s3 \div NB
        s5 == x[5] + y[5] + s4 \div NB
    IN  <<s1 % NB, s2 % NB, s3 % NB, s4 % NB, s5 % NB>>

NSub(x, y) ==                       \* value(x) - value(y), requires value(x) >= value(y)
    LET d1 == x[1] - y[1]
        b1 == IF d1 < 0 THEN 1 ELSE 0
        d2 == x[2] - y[2] - b1
        b2 == IF d2 < 0 THEN 1 ELSE 0
        d3 == x[3] - y[3] - b2
        b3 == IF d3 < 0 THEN 1 ELSE 0
        d4 == x[4] - y[4] - b3
        b4 == IF d4 < 0 THEN 1 ELSE 0
        d5 == x[5] - y[5] - b4
    IN  <<d1 + b1 * NB, d2 + b2 * NB, d3 + b3 * NB, d4 + b4 * NB, d5>>

NMulD(x, d) ==                      \* value(x) * d for one digit d < 2^15, result < 2^75
    LET t1 == x[1] * d
        t2 == x[2] * d + t1 \div NB
        t3 == x[3] * d + t2 \div NB
        t4 == x[4] * d + t3 \div NB
        t5 == x[5] * d + t4 \div NB
    IN  <<t1 % NB, t2 % NB, t3 % NB, t4 % NB, t5 % NB>>

NShl(x) == <<0, x[1], x[2], x[3], x[4]>>                                \* * 2^15 (x[5] must be 0)

NMul(x, y) ==                       \* value(x) * value(y), which must be < 2^75 (Horner over y)
    LET h5 == NMulD(x, y[5])
        h4 == NAdd(NMulD(x, y[4]), NShl(h5))
        h3 == NAdd(NMulD(x, y[3]), NShl(h4))
        h2 == NAdd(NMulD(x, y[2]), NShl(h3))
    IN  NAdd(NMulD(x, y[1]), NShl(h2))

NPow53 == <<0, 0, 0, 256, 0>>       \* 2^53 = 2^8 * 2^45

(* ----------------------------------------------------------------------- *)
(* floor division of 32-bit operands: a, b with value < 2^32, b >= 1.      *)
(* b < 2^30 : long division in base 2^15; each quotient digit is found     *)
(*            bit by bit with native integers (the running remainder is    *)
(*            below b, so 2*rem + 1 < 2^31).                                *)
(* b >= 2^30: the quotient is at most 3; repeated subtraction.             *)
(* Result [q |-> digits, r |-> digits].                                    *)
(* ----------------------------------------------------------------------- *)
DBits == <<16384, 8192, 4096, 2048, 1024, 512, 256, 128, 64, 32, 16, 8, 4, 2, 1>>

DivDigit(rem, dig, b) ==            \* (rem * 2^15 + dig) divided by b, rem < b < 2^30
    LET step(acc, w) ==
            LET r2 == 2 * acc.r + ((dig \div w) % 2)
            IN  IF r2 >= b THEN [q |-> 2 * acc.q + 1, r |-> r2 - b] ELSE [q |-> 2 * acc.q, r |-> r2]
    IN  FoldLeft(step, [q |-> 0, r |-> rem], DBits)

NDivMod32(a, b) ==
    IF b[3] = 0
    THEN LET bi == b[1] + NB * b[2]
             s3 == DivDigit(0, a[3], bi)
             s2 == DivDigit(s3.r, a[2], bi)
             s1 == DivDigit(s2.r, a[1], bi)
         IN  [q |-> <<s1.q, s2.q, s3.q, 0, 0>>, r |-> FromInt(s1.r)]
    ELSE IF NLess(a, b) THEN [q |-> NZero, r |-> a]
    ELSE LET a1 == NSub(a, b) IN
         IF NLess(a1, b) THEN [q |-> NOne, r |-> a1]
    ELSE LET a2 == NSub(a1, b) IN
         IF NLess(a2, b) THEN [q |-> <<2, 0, 0, 0, 0>>, r |-> a2]
    ELSE [q |-> <<3, 0, 0, 0, 0>>, r |-> NSub(a2, b)]

(* the defining property of the result above; evaluated next to every use *)
DivModOk(a, b, d) == NLess(d.r, b) /\ NAdd(NMul(d.q, b), d.r) = a

NFloorDiv(a, b) == NDivMod32(a, b).q
NCeilDiv(a, b)  == LET d == NDivMod32(a, b) IN IF d.r = NZero THEN d.q ELSE NAdd(d.q, NOne)

(* ----------------------------------------------------------------------- *)
(* bits, shifts and IEEE-754 binary64 rounding of an integer               *)
(* ----------------------------------------------------------------------- *)
BitLen15(d) == IF d = 0 THEN 0 ELSE CHOOSE k \in 1 .. 15 : d >= 2 ^ (k - 1) /\ d < 2 ^ k
BitLenI(n)  == IF n \div (NB * NB) # 0 THEN 30 + BitLen15(n \div (NB * NB))          \* 0 <= n < 2^31
               ELSE IF n \div NB # 0 THEN 15 + BitLen15(n \div NB) ELSE BitLen15(n)
NBitLen(x) ==                       \* number of significant bits (0 for zero)
    IF x[5] # 0 THEN 60 + BitLen15(x[5]) ELSE
    IF x[4] # 0 THEN 45 + BitLen15(x[4]) ELSE
    IF x[3] # 0 THEN 30 + BitLen15(x[3]) ELSE
    IF x[2] # 0 THEN 15 + BitLen15(x[2]) ELSE BitLen15(x[1])
NBit(x, i) == (x[i \div 15 + 1] \div (2 ^ (i % 15))) % 2                             \* bit i, 0 <= i < 75

NShr(x, j) ==                       \* floor(value(x) / 2^j), j >= 0
    LET a == j \div 15
        b == j % 15
    IN  [ i \in 1 .. ND |->
            (IF i + a <= ND THEN x[i + a] \div (2 ^ b) ELSE 0)
          + (IF i + a + 1 <= ND THEN (x[i + a + 1] % (2 ^ b)) * (2 ^ (15 - b)) ELSE 0) ]

(* the binary64 nearest to the integer value(x) < 2^67 (round to nearest, ties to even): *)
(* exact up to 53 significant bits, otherwise the sh = bitlen - 53 <= 14 low bits are rounded away *)
NRound53(x) ==
    LET n == NBitLen(x) IN
    IF n <= 53 THEN x
    ELSE LET sh   == n - 53
             w    == 2 ^ sh
             low  == x[1] % w
             base == NSub(x, FromInt(low))
             up   == low > w \div 2 \/ (low = w \div 2 /\ NBit(x, sh) = 1)
         IN  IF up THEN NAdd(base, FromInt(w)) ELSE base


=============================================================================
