----------------------------- MODULE KernelTrace -----------------------------
(***************************************************************************)
(* C13: validates the observations of harness/kernel_driver.c against the  *)
(* byte-wise definitions of Kernels.tla and checks that the part of the    *)
(* case space assigned to this trace was exercised completely.             *)
(*                                                                         *)
(* Trace: one record per group <<size, n, pattern, c>> of one kernel       *)
(*  {"e":"G","tier":"q"|"t","kid":K,"sz":S,"n":N,"p":P,"c":C,"runs":[RUN]} *)
(*  RUN = {"a":[offset of each buffer],"v":variant,"f":fault,"w":what,     *)
(*         "b":[{"i":buffer,"l":[left guard],"c":[content],"r":[right]}]}  *)
(*  variant 0: every buffer is an exact-size heap block (ASan red zone     *)
(*             right after the last byte); no guard bytes are logged       *)
(*  variant 1: every buffer lies between two 16-byte guard areas that are  *)
(*             logged with the content                                     *)
(*  f = 1: the run died with a memory fault (ASan report / signal),        *)
(*  f = 2: the run was skipped because the driver gave up after too many   *)
(*         faults; both are C13 violations ("neither read nor write any    *)
(*         byte beyond size")                                              *)
(*  last record {"e":"End"}                                                *)
(* The runs of a group must be AlSeq(..) x (variant 0, variant 1) in that  *)
(* order, the groups of the file must be exactly those of                  *)
(* GroupSet(tier, kid) with size % R = RES, in increasing Rank.            *)
(* Disagreements about the shape of the trace are tagged INFRA (driver     *)
(* problem, no verdict); differences in bytes are tagged C13.              *)
(*                                                                         *)
(* IOEnv: TRACE, MODE ("full" | "rows" = no coverage check, for replays),  *)
(*        TIER ("q"|"t"), KID, PARTS (= R), PART (= RES)                   *)
(***************************************************************************)
EXTENDS Naturals, Integers, Sequences, FiniteSets, TLC, Json, IOUtils, SequencesExt, FiniteSetsExt, Kernels

TraceLog == TLCGet(7)
LoadLog == TLCSet(7, ndJsonDeserialize(IOEnv.TRACE))
Mode == IOEnv.MODE
Tier == IOEnv.TIER
Kid == atoi(IOEnv.KID)
Parts == atoi(IOEnv.PARTS)
Part == atoi(IOEnv.PART)

PartGroups == TLCGet(8)
LoadGroups == TLCSet(8, IF Mode = "full" THEN { g \in GroupSet(Tier, Kid) : g[1] % Parts = Part } ELSE {})

VARIABLES l, prev, cnt, nruns, nnt     \* nnt: runs in which the kernel has to change at least one byte position
vars == <<l, prev, cnt, nruns, nnt>>

Str(i) == ToString(i)
Msg(tag, name, ctx) == PrintT(<<"VMSG", l, 0, tag, name, 0, ctx>>)
(* offsets as "0.1.5": no tuple brackets inside message strings *)
AStr(a) == FoldLeft(LAMBDA acc, x : acc \o (IF acc = "" THEN "" ELSE ".") \o Str(x), "", a)
GroupStr(ev) == "k=" \o KernelName[ev.kid + 1] \o " sz=" \o Str(ev.sz) \o " n=" \o Str(ev.n) \o " p=" \o Str(ev.p) \o " c=" \o Str(ev.c)

(* position (1-based) of the first difference of two byte sequences of equal length, 0 if equal *)
FirstDiff(x, y) == LET d == { i \in 1 .. Len(x) : x[i] # y[i] } IN IF d = {} THEN 0 ELSE Min(d)

(* whole-sequence equalities: TLC evaluates each expected sequence once per group *)
BufOK(buf, v, E) ==
    /\ buf.c = E[buf.i + 1]
    /\ buf.l = GuardL(v, buf.i)
    /\ buf.r = GuardR(v, buf.i)

(* shape of run r (which alignment, which variant, which buffers logged): driver protocol *)
RunShapeOK(ev, run, r, als) ==
    /\ run.a = als[(r + 1) \div 2]
    /\ run.v = (r + 1) % 2
    /\ run.f \in {0, 1, 2}
    /\ run.f = 0 => LET lg == Logged(ev.kid, ev.n, run.v)
                    IN  Len(run.b) = Len(lg) /\ \A k \in 1 .. Len(lg) : run.b[k].i = lg[k]

RunOK(ev, run, E) == run.f = 0 /\ \A k \in 1 .. Len(run.b) : BufOK(run.b[k], run.v, E)

(* name and description of what is wrong with a run that is not RunOK *)
Describe(ev, run, E) ==
    IF run.f = 1 THEN <<"memory-fault", "fault=" \o run.w>>
    ELSE IF run.f = 2 THEN <<"skipped-after-memory-faults", "">>
    ELSE LET k   == Min({ j \in 1 .. Len(run.b) : ~ BufOK(run.b[j], run.v, E) })
             buf == run.b[k]
             nd  == NDst(ev.kid, ev.n)
         IN  IF Len(buf.c) # Len(E[buf.i + 1]) \/ Len(buf.l) # Len(GuardL(run.v, buf.i)) \/ Len(buf.r) # Len(GuardR(run.v, buf.i))
             THEN <<"INFRA-buffer-length", "buf=" \o Str(buf.i)>>
             ELSE IF FirstDiff(buf.c, E[buf.i + 1]) # 0
             THEN LET i == FirstDiff(buf.c, E[buf.i + 1])
                  IN  << IF buf.i < nd THEN "result-differs" ELSE "source-modified",
                         "buf=" \o Str(buf.i) \o " byte=" \o Str(i - 1) \o " got=" \o Str(buf.c[i]) \o " want=" \o Str(E[buf.i + 1][i]) >>
             ELSE IF FirstDiff(buf.l, GuardL(run.v, buf.i)) # 0
             THEN <<"write-before-buffer", "buf=" \o Str(buf.i) \o " guard-byte=-" \o Str(17 - FirstDiff(buf.l, GuardL(run.v, buf.i)))>>
             ELSE <<"write-beyond-size", "buf=" \o Str(buf.i) \o " guard-byte=+" \o Str(FirstDiff(buf.r, GuardR(run.v, buf.i)) - 1)>>

(* GroupCheck is used as ONE state-level expression (GroupCheck(ev) = TRUE): TLC then caches the
   LET values (expected buffers, alignment sequence) instead of re-evaluating them at every use,
   which it does for definitions expanded in an action context.  Every conjunct is TRUE (Msg
   prints and returns TRUE), a failing group does not stop the validation. *)
GroupCheck(ev) ==
    LET g   == <<ev.sz, ev.n, ev.p, ev.c>>
        als == AlSeq(ev.tier, ev.kid, ev.sz, ev.n, ev.p, ev.c)
        shapeBad == { r \in 1 .. Len(ev.runs) : ~ RunShapeOK(ev, ev.runs[r], r, als) }
    IN  /\ IF Mode = "full" => (ev.tier = Tier /\ ev.kid = Kid /\ g \in PartGroups) THEN TRUE
           ELSE Msg("INFRA", "group-not-in-case-space", GroupStr(ev))
        /\ IF Rank(g) > prev THEN TRUE ELSE Msg("INFRA", "groups-not-in-increasing-order", GroupStr(ev))
        /\ IF Len(ev.runs) = 2 * Len(als) THEN TRUE ELSE Msg("INFRA", "number-of-runs-differs", GroupStr(ev))
        /\ IF shapeBad = {} THEN TRUE ELSE Msg("INFRA", "run-shape-differs", GroupStr(ev) \o " run=" \o Str(Min(shapeBad)))
        /\ IF shapeBad = {}
           THEN LET E   == ExpectedBufs(ev.kid, ev.sz, ev.n, ev.p, ev.c)
                    bad == { r \in 1 .. Len(ev.runs) : ~ RunOK(ev, ev.runs[r], E) }
                    kinds == { Describe(ev, ev.runs[r], E)[1] : r \in bad }
                IN  \* one message per kind of failure: its first run and the number of runs failing that way
                    \A kd \in kinds :
                        LET rs  == { r \in bad : Describe(ev, ev.runs[r], E)[1] = kd }
                            run == ev.runs[Min(rs)]
                            d   == Describe(ev, run, E)
                        IN  Msg(IF kd = "INFRA-buffer-length" THEN "INFRA" ELSE "C13", kd,
                                GroupStr(ev) \o " a=" \o AStr(run.a) \o " v=" \o Str(run.v) \o " " \o d[2]
                                \o " failing-runs=" \o Str(Cardinality(rs)) \o "/" \o Str(Len(ev.runs)))
           ELSE TRUE

CheckGroup(ev) ==
    LET g == <<ev.sz, ev.n, ev.p, ev.c>>
    IN  /\ GroupCheck(ev) = TRUE
        /\ prev' = Rank(g)
        /\ cnt' = cnt + 1
        /\ nruns' = nruns + Len(ev.runs)
        /\ nnt' = nnt + (IF ev.sz > 0 /\ ev.n > 0 /\ (ev.kid >= 3 => ev.c # 0) THEN Len(ev.runs) ELSE 0)

Init == LoadLog /\ LoadGroups /\ l = 1 /\ prev = -1 /\ cnt = 0 /\ nruns = 0 /\ nnt = 0

Next ==
    /\ l <= Len(TraceLog)
    /\ l' = l + 1
    /\ LET ev == TraceLog[l]
       IN  IF ev.e = "G" THEN CheckGroup(ev)
           ELSE /\ IF ev.e = "End"
                   THEN IF Mode = "full" => cnt = Cardinality(PartGroups)
                        THEN PrintT(<<"COVER", "complete", cnt, nruns, nnt>>)
                        ELSE Msg("INFRA", "groups-missing", Str(cnt) \o " of " \o Str(Cardinality(PartGroups)))
                   ELSE Msg("INFRA", "unknown-record", ev.e)
                /\ UNCHANGED <<prev, cnt, nruns, nnt>>

TraceSpec == Init /\ [][Next]_vars
TraceConsumed == TLCGet("stats").diameter - 1 = Len(TraceLog)
=============================================================================
