INIT Init
NEXT Next
CONSTANTS
  WordSize = 2
  Dims <- DimsTiny
  NDense = 2
  MaxP = 0
INVARIANTS TypeOK Abstraction PaddingZero ResultsAgree
CHECK_DEADLOCK FALSE
