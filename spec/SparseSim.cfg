INIT SimInit
NEXT SimNext
CONSTANTS
  BlockSize = 4
  ResetFreeOnClear = TRUE
  Dims <- DimsNone
  NSparse = 3
  NDense = 2
  MaxDepth = 0
  SimDepth = 40
INVARIANTS Export TypeOK Abstraction Traversals NoDangling Conservation DenseTypeOK
CHECK_DEADLOCK FALSE
