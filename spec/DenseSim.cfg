INIT SimInit
NEXT SimNext
CONSTANTS
  WordSize = 32
  Dims <- DimsNone
  NDense = 3
  MaxP = 0
  SimDepth = 40
INVARIANTS Export TypeOK Abstraction PaddingZero
CHECK_DEADLOCK FALSE
