----------------------------- MODULE PrngTrace -----------------------------
(***************************************************************************)
(* C19: validates a trace recorded by harness/prng_driver.c (the real      *)
(* of_rfc5170_srand / of_rfc5170_rand of src/lib_common/of_rand.c) against *)
(* module ParkMiller.  One record per TLC step.  64-bit quantities of the  *)
(* C code arrive as Nat64 digit tuples.                                    *)
(*                                                                         *)
(*   srand : of_seed after the call = Seed(of_seed before, v): changed     *)
(*           exactly when v is in 1 .. 2^31-2                              *)
(*   rand  : new state = PMNext(previous observed state); result in        *)
(*           0 .. maxv-1; result = floor(s'*maxv/(2^31-1)) when            *)
(*           s'*maxv < 2^53; result = the binary64 value of the RFC's      *)
(*           expression, truncated, always (RefScale); the 10 000-th state *)
(*           after an accepted srand(1) is 1 043 618 065                   *)
(*   walk  : n calls later the state is 16807^n * s mod (2^31-1); after    *)
(*           seed 1 the state is 1 exactly when the number of calls is a   *)
(*           multiple of 2^31-2                                            *)
(*   one   : the driver saw of_seed = 1 after cnt calls: only at a         *)
(*           multiple of 2^31-2                                            *)
(***************************************************************************)
EXTENDS Naturals, Integers, Sequences, TLC, Json, IOUtils, SequencesExt, ParkMiller, Nat64

TraceLog == TLCGet(7)
LoadLog == TLCSet(7, ndJsonDeserialize(IOEnv.TRACE))

VARIABLES l,       \* next line
          st,      \* last observed of_seed (Nat64 digits)
          known,   \* st is meaningful
          cnt,     \* rand calls since the last srand / set
          sd       \* seed of an accepted srand that started the current sequence, else 0
vars == <<l, st, known, cnt, sd>>

PERIOD == P31 - 1                      \* 2^31 - 2
S10000 == 1043618065
M12 == PowModP(MULT, 4096)
M16 == PowModP(MULT, 65536)

(* facts of the specification itself, evaluated once when TLC starts *)
ASSUME StateAfter(1, 10000) = S10000                       \* closed form agrees with [Park88]
ASSUME 2 * 9 * 7 * 11 * 31 * 151 * 331 = PERIOD
ASSUME PowModP(MULT, PERIOD) = 1
ASSUME \A q \in {2, 3, 7, 11, 31, 151, 331} : PowModP(MULT, PERIOD \div q) # 1   \* 16807 is a primitive root
ASSUME PMNext(1) = 16807 /\ PMNext(P31 - 1) = P31 - MULT

Msg(name, ctx) == PrintT(<<"VMSG", l, 0, "C19", name, 0, ctx>>)
Infra(name) == PrintT(<<"VMSG", l, 0, "INFRA", name, 0, "">>)

ValidN(x) == Fits31(x) /\ ValidState(ToInt(x))

StateAfterW(s, n) ==
    IF n = 65536 THEN MulModP(M16, s)
    ELSE IF n = 4096 THEN MulModP(M12, s)
    ELSE StateAfter(s, n)

(* ---------------------------------------------------------------- srand *)
Srand(ev) ==
    LET v == ev.v
        accept == Fits31(v) /\ ValidState(ToInt(v))
        expect == IF Fits31(v) /\ Fits31(ev.b) THEN FromInt(Seed(ToInt(ev.b), ToInt(v))) ELSE ev.b
    IN  /\ IF IsN(v) /\ IsN(ev.b) /\ IsN(ev.a) /\ Fits31(ev.b) THEN TRUE ELSE Infra("srand-record")
        /\ IF known => ev.b = st THEN TRUE ELSE Infra("srand-discontinuity")
        /\ IF ev.a = expect THEN TRUE
           ELSE Msg("srand-acceptance", IF accept THEN "rejected-in-range" ELSE "accepted-out-of-range")
        /\ st' = ev.a /\ known' = TRUE /\ cnt' = 0
        /\ sd' = IF accept /\ ev.a = v THEN ToInt(v) ELSE 0

(* ----------------------------------------------------------------- rand *)
(***************************************************************************)
(* RFC 5170's reference expression                                         *)
(*     (double)s' * (double)maxv / (double)(2^31-1)   truncated            *)
(* in IEEE-754 binary64, round to nearest even, as two correctly rounded   *)
(* operations: A = RN53(s'*maxv) (an integer; exact below 2^53), then      *)
(* RN53(A / (2^31-1)) (2^31-1 is a double), then truncation toward zero.   *)
(* DivA: floor and remainder of A by 2^31-1, from those of the exact       *)
(* product (MulDivP) and the small difference A - product.                 *)
(* RefScale: the 53 leading significant bits of f + rem/(2^31-1) are       *)
(* produced one by one (doubling the remainder modulo 2^31-1 yields the    *)
(* next fraction bit as the carry; they are appended to the significand    *)
(* 15 at a time), the next bit and "anything left" decide the rounding,    *)
(* and the F fraction bits are shifted out again.                          *)
(***************************************************************************)
DivA(prod, A, md) ==                \* md = [q, r] with prod = q*(2^31-1) + r
    IF NLeq(prod, A)
    THEN LET du == ToInt(NSub(A, prod))                     \* A = prod + du, du <= 2^6
         IN  IF md.r >= P31 - du THEN [q |-> md.q + 1, r |-> md.r - (P31 - du)] ELSE [q |-> md.q, r |-> md.r + du]
    ELSE LET dd == ToInt(NSub(prod, A))                     \* A = prod - dd
         IN  IF md.r >= dd THEN [q |-> md.q, r |-> md.r - dd] ELSE [q |-> md.q - 1, r |-> md.r + (P31 - dd)]

Idx84 == [i \in 1 .. 84 |-> i]      \* at most 31 leading zero bits + 53 significant bits

RefScale(prod, md) ==               \* Nat64 value of the truncated reference expression; prod = s' * maxv < 2^60
    LET A  == NRound53(prod)
        dv == DivA(prod, A, md)
        step(acc, i) ==
            IF acc.nb >= 53 THEN acc
            ELSE LET d   == AddModP(acc.r, acc.r)           \* d.c = next fraction bit
                     cur == 2 * acc.cur + d.c
                     nb  == IF acc.nb = 0 /\ d.c = 0 THEN 0 ELSE acc.nb + 1
                 IN  IF acc.k = 14
                     THEN [M |-> NAdd(NShl(acc.M), FromInt(cur)), cur |-> 0, k |-> 0, nb |-> nb, F |-> acc.F + 1, r |-> d.v]
                     ELSE [M |-> acc.M, cur |-> cur, k |-> acc.k + 1, nb |-> nb, F |-> acc.F + 1, r |-> d.v]
        m  == FoldLeft(step, [M |-> FromInt(dv.q), cur |-> 0, k |-> 0, nb |-> BitLenI(dv.q), F |-> 0, r |-> dv.r],
                       SubSeq(Idx84, 1, IF dv.q = 0 THEN 84 ELSE 53 - BitLenI(dv.q)))
        M1 == NAdd(NMulD(m.M, 2 ^ m.k), FromInt(m.cur))     \* significand: f followed by the F fraction bits
        rb == AddModP(m.r, m.r)                             \* first discarded bit = rb.c, rest non-zero iff rb.v # 0
        up == rb.c = 1 /\ (rb.v # 0 \/ NBit(M1, 0) = 1)
        M2 == IF up THEN NAdd(M1, NOne) ELSE M1             \* may become 2^53: still the right value
    IN  [v  |-> NShr(M2, m.F),
         ok |-> NBitLen(prod) <= 60 /\ NBitLen(A) <= 60 /\ (m.nb = 53 \/ m.r = 0)
                /\ NAdd(NMul(FromInt(dv.q), FromInt(P31)), FromInt(dv.r)) = A /\ dv.r < P31 /\ dv.r >= 0]

ScaleCheck(s2, mv, r) ==
    LET md   == MulDivP(s2, mv)
        prod == NMul(FromInt(s2), FromInt(mv))
        wide == NLeq(NPow53, prod)                    \* s' * maxv >= 2^53
        rv   == ToInt(r)
        ref  == RefScale(prod, md)
    IN  /\ IF NAdd(NMul(FromInt(md.q), FromInt(P31)), FromInt(md.r)) = prod /\ md.r < P31 THEN TRUE
           ELSE Infra("spec-muldiv-selfcheck")
        /\ IF ref.ok THEN TRUE ELSE Infra("spec-refscale-selfcheck")
        /\ IF Fits31(r) /\ rv < mv THEN TRUE ELSE Msg("result-out-of-range", "")
        /\ IF wide \/ (Fits31(r) /\ rv = md.q) THEN TRUE ELSE Msg("result-not-floor", "prod<2^53")
        /\ IF r = ref.v THEN TRUE ELSE Msg("result-not-rfc-double", IF wide THEN "prod>=2^53" ELSE "prod<2^53")

Rand(ev) ==
    LET pre == known /\ ValidN(st)
        s1  == PMNext(ToInt(st))
        s2  == IF ValidN(ev.s) THEN ToInt(ev.s) ELSE s1
    IN  /\ IF IsN(ev.s) /\ IsN(ev.r) /\ ev.mv >= 1 /\ ev.mv < 16777216 THEN TRUE ELSE Infra("rand-record")
        /\ IF pre THEN (IF ev.s = FromInt(s1) THEN TRUE ELSE Msg("next-state-wrong", ""))
           ELSE (IF known THEN TRUE ELSE Infra("rand-from-unknown-state"))   \* an invalid state was reported where it arose
        /\ IF pre /\ sd = 1 /\ cnt + 1 = 10000
           THEN (IF ev.s = FromInt(S10000) THEN TRUE ELSE Msg("state-10000-wrong", ""))
           ELSE TRUE
        /\ IF pre \/ ValidN(ev.s) THEN ScaleCheck(s2, ev.mv, ev.r) ELSE TRUE
        /\ st' = ev.s /\ known' = TRUE /\ cnt' = cnt + 1 /\ sd' = sd

(* ----------------------------------------------------------------- walk *)
Walk(ev) ==
    /\ IF known /\ IsN(ev.s) /\ ev.n >= 1 /\ cnt <= PERIOD - ev.n /\ ev.cnt = cnt + ev.n /\ ev.sd = sd THEN TRUE
       ELSE Infra("walk-discontinuity")
    /\ IF known /\ ValidN(st)
       THEN (IF ev.s = FromInt(StateAfterW(ToInt(st), ev.n)) THEN TRUE ELSE Msg("checkpoint-wrong", ""))
       ELSE (IF known THEN TRUE ELSE Infra("walk-from-unknown-state"))
    /\ IF ev.sd = 1
       THEN (IF (ev.s = NOne) <=> (ev.cnt % PERIOD = 0) THEN TRUE ELSE Msg("period-wrong", "state1-vs-count"))
       ELSE TRUE
    /\ st' = ev.s /\ known' = TRUE /\ cnt' = ev.cnt /\ sd' = sd

One(ev) ==
    /\ IF ev.sd = 1 => ev.cnt % PERIOD = 0 THEN TRUE ELSE Msg("period-wrong", "state1-early")
    /\ UNCHANGED <<st, known, cnt, sd>>

Init == LoadLog /\ l = 1 /\ st = NZero /\ known = FALSE /\ cnt = 0 /\ sd = 0

Next ==
    /\ l <= Len(TraceLog)
    /\ l' = l + 1
    /\ LET ev == TraceLog[l]
       IN  CASE ev.e = "srand" -> Srand(ev)
             [] ev.e = "set"   -> /\ IF IsN(ev.s) THEN TRUE ELSE Infra("set-record")
                                  /\ st' = ev.s /\ known' = TRUE /\ cnt' = 0 /\ sd' = 0
             [] ev.e = "rand"  -> Rand(ev)
             [] ev.e = "walk"  -> Walk(ev)
             [] ev.e = "one"   -> One(ev)
             [] OTHER          -> Infra("unknown-record") /\ UNCHANGED <<st, known, cnt, sd>>

TraceSpec == Init /\ [][Next]_vars
TraceConsumed == TLCGet("stats").diameter - 1 = Len(TraceLog)
=============================================================================
