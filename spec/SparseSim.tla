----------------------------- MODULE SparseSim -----------------------------
(***************************************************************************)
(* Behaviour export: TLC simulation of SparseMatrix with randomly          *)
(* parameterised operations (dimensions up to 6 x 40).  Every simulated    *)
(* behaviour of SimDepth operations is printed as JSON; checks/sparse.py   *)
(* replays it on the real module and validates the resulting trace with    *)
(* SparseTrace.  The invariants of SparseMatrix are checked on the way.    *)
(***************************************************************************)
EXTENDS SparseMatrix, Json

CONSTANTS SimDepth
VARIABLE hist

SimDims == {<<1, 1>>, <<2, 3>>, <<3, 3>>, <<4, 7>>, <<6, 40>>, <<5, 33>>, <<6, 6>>}
Rnd(n) == RandomElement(0 .. (IF n >= 1 THEN n - 1 ELSE 0))
RndSeq(n, k) == [i \in 1 .. n |-> Rnd(k)]

SimCandidates(S_) ==
    LET a == Rnd(NSparse)
        b == Rnd(NSparse)
        da == Rnd(NDense)
        A == S_.sp[a + 1]
        B == S_.sp[b + 1]
        D == S_.dn[da + 1]
        dim == RandomElement(SimDims)
    IN  {  Mk("salloc", a, 0, dim[1], dim[2], <<>>, <<>>),
           Mk("sins", a, 0, Rnd(A.R), Rnd(A.C), <<>>, <<>>),
           Mk("sins", b, 0, Rnd(B.R), Rnd(B.C), <<>>, <<>>),
           Mk("sins", a, 0, Rnd(A.R), Rnd(A.C), <<>>, <<>>),
           Mk("sdel", a, 0, Rnd(A.R), Rnd(A.C), <<>>, <<>>),
           Mk("sfind", a, 0, Rnd(A.R), Rnd(A.C), <<>>, <<>>),
           Mk("sq", a, 0, Rnd(A.R), Rnd(A.C), <<>>, <<>>),
           Mk("sclear", a, 0, 0, 0, <<>>, <<>>),
           Mk("sfree", a, 0, 0, 0, <<>>, <<>>),
           Mk("scopy", a, b, 0, 0, <<>>, <<>>),
           Mk("scopyrows", a, b, 0, 0, RndSeq(B.R, A.R), <<>>),
           Mk("scopyrows_opt", a, b, 0, 0, RndSeq(B.R, A.R), <<>>),
           Mk("scopycols", a, b, 0, 0, RndSeq(B.C, A.C), <<>>),
           Mk("scopycols_opt", a, b, 0, 0, RndSeq(B.C, A.C), <<>>),
           Mk("sfilled", a, b, 0, 0, RndSeq(A.R, B.R), RndSeq(A.C, B.C)),
           Mk("s2d", a, da, 0, 0, <<>>, <<>>),
           Mk("d2s", da, b, 0, 0, <<>>, <<>>),
           Mk("dalloc", da, 0, dim[1], dim[2], <<>>, <<>>),
           Mk("dflip", da, 0, Rnd(D.R), Rnd(D.C), <<>>, <<>>),
           Mk("dflip", da, 0, Rnd(D.R), Rnd(D.C), <<>>, <<>>),
           Mk("dfree", da, 0, 0, 0, <<>>, <<>>) }

SimInit == S = S0 /\ depth = 0 /\ hist = <<>>
SimNext == /\ Len(hist) < SimDepth
           /\ UNCHANGED depth
           /\ \E o \in SimCandidates(S) : Enabled(S, o) /\ S' = Apply(S, o) /\ hist' = Append(hist, o)

Export == Len(hist) = SimDepth => PrintT(<<"BEH", ToJson(hist)>>)
=============================================================================
