-------------------------------- MODULE GF2 --------------------------------
(***************************************************************************)
(* Linear algebra over GF(2) on finite sets of naturals.                   *)
(*                                                                         *)
(* A vector is the set of its non-zero coordinates; addition is symmetric  *)
(* difference.  A parity-check system is a sequence of rows, each row the  *)
(* set of encoding-symbol ids (ESIs) taking part in that equation.         *)
(* Everything here is definitional: the peeling closure and solvability    *)
(* are defined from the equations only, never from a decoder algorithm.    *)
(***************************************************************************)
EXTENDS Naturals, FiniteSets, Sequences, SequencesExt, FiniteSetsExt


XorAll(setOfSets) == FoldSet(LAMBDA a, acc : SymDiff(a, acc), {}, setOfSets)

(* XOR of a *family* (sequence) of vectors: duplicates matter. *)
XorSeq(seqOfSets) == FoldLeft(LAMBDA acc, a : SymDiff(acc, a), {}, seqOfSets)

(***************************************************************************)
(* Iterative-erasure (peeling) closure: least set containing Known that is *)
(* closed under "an equation with exactly one unknown member releases it". *)
(***************************************************************************)
Releasable(H, K) == UNION { H[i] \ K : i \in { j \in DOMAIN H : Cardinality(H[j] \ K) = 1 } }

RECURSIVE PeelClosure(_, _)
PeelClosure(H, K) ==
    LET new == Releasable(H, K)
    IN  IF new = {} THEN K ELSE PeelClosure(H, K \cup new)

(***************************************************************************)
(* Gauss-Jordan elimination of the system restricted to the unknown        *)
(* columns.  State: piv = set of <<column, row-set>> already pivoted, rest *)
(* = set of non-empty rows without pivot.  Duplicate rows collapse, which  *)
(* does not change the row space.                                          *)
(***************************************************************************)
GJStep(st, c) ==
    LET cand == { r \in st.rest : c \in r }
    IN  IF cand = {} THEN st
        ELSE LET p == CHOOSE r \in cand : TRUE
                 red(r) == IF c \in r THEN SymDiff(r, p) ELSE r
             IN  [ piv  |-> { <<q[1], red(q[2])>> : q \in st.piv } \cup { <<c, p>> },
                   rest |-> { red(r) : r \in st.rest \ {p} } \ { {} } ]

GaussJordan(rows, cols) ==
    FoldLeft(GJStep, [piv |-> {}, rest |-> rows \ { {} }], SetToSeq(cols))

(* Unknown coordinates whose value is the same in every solution. *)
DeterminedUnknowns(H, Known) ==
    LET U    == (UNION { H[i] : i \in DOMAIN H }) \ Known
        rows == { H[i] \ Known : i \in DOMAIN H }
        gj   == GaussJordan(rows, U)
    IN  { q[1] : q \in { p \in gj.piv : p[2] = {p[1]} } }

(* Rank of the unknown part: number of pivots. *)
RankUnknown(H, Known) ==
    LET U    == (UNION { H[i] : i \in DOMAIN H }) \ Known
        rows == { H[i] \ Known : i \in DOMAIN H }
    IN  Cardinality(GaussJordan(rows, U).piv)

(***************************************************************************)
(* The k source symbols (ESIs 0..k-1) are uniquely determined by the       *)
(* symbols in Known and the equations H.  A source symbol that occurs in   *)
(* no equation at all is determined only if it is known.                   *)
(***************************************************************************)
SourceDetermined(H, k, Known) ==
    LET K2  == PeelClosure(H, Known)
        det == DeterminedUnknowns(H, K2)
    IN  \A i \in 0 .. (k - 1) : i \in K2 \/ i \in det

DeterminedSources(H, k, Known) ==
    LET K2  == PeelClosure(H, Known)
        det == DeterminedUnknowns(H, K2)
    IN  { i \in 0 .. (k - 1) : i \in K2 \/ i \in det }

(* Full column rank of the unknown columns (the solver's success criterion). *)
FullColumnRank(H, Known) ==
    LET U == (UNION { H[i] : i \in DOMAIN H }) \ Known
    IN  RankUnknown(H, Known) = Cardinality(U)

(***************************************************************************)
(* A codeword assignment val : ESI -> vector satisfies the system.         *)
(***************************************************************************)
IsCodeword(H, val) ==
    \A i \in DOMAIN H : XorSeq([ j \in 1 .. Cardinality(H[i]) |-> val[SetToSeq(H[i])[j]] ]) = {}

(* The last repair symbol n-1 is identically zero on every codeword of a     *)
(* staircase system iff the sum of all equations is exactly {n-1}.           *)
SumOfRows(H) == XorSeq(H)

=============================================================================
