---------------------------- MODULE RsCodecModel ----------------------------
(***************************************************************************)
(* One TLC state per question about the Reed-Solomon core (module RsCodec):*)
(*   kind "enc": is every row of the systematic encoding matrix built by   *)
(*               the transcribed algorithm the generator row of its ESI    *)
(*               (g * V_top = V[esi]), and is InvertVdm the inverse?       *)
(*   kind "dec": for the selection S of k ESIs -- arranged as the API      *)
(*               files arrange them (source i in slot i, gaps filled by    *)
(*               repairs in increasing ESI), in reverse order, or rotated  *)
(*               (the shuffle has work to do) -- does the shuffle succeed, *)
(*               is the decoding matrix invertible by the code's           *)
(*               Gauss-Jordan (the MDS lemma), and is every reconstructed  *)
(*               slot the source symbol of that slot?                      *)
(* GF(2^4): every k < n = 15 and every selection (exhaustive MDS proof).   *)
(* GF(2^8): every selection from a pool of ESIs spread over 0 .. 254.      *)
(***************************************************************************)
EXTENDS RsCodec, TLC, FiniteSetsExt

CONSTANTS M,        \* 4 or 8
          MaxK,     \* 1 <= k <= MaxK
          Pool      \* ESIs the selections are drawn from (k < n = Max(Pool) + 1)

VARIABLE p
N == Max(Pool) + 1

SortedSeq(S) == SetToSortSeq(S, <)

(* arrangement of the selection in the k slots *)
ApiOrder(S, k) ==
    LET reps == SortedSeq({ e \in S : e >= k })
        gaps == SortedSeq({ i \in 0 .. (k - 1) : i \notin S })
    IN  TLCEval([ i \in 0 .. (k - 1) |-> IF i \in S THEN i ELSE reps[CHOOSE j \in DOMAIN gaps : gaps[j] = i] ])
RevOrder(S, k) == LET q == SortedSeq(S) IN TLCEval([ i \in 0 .. (k - 1) |-> q[k - i] ])
RotOrder(S, k) == LET q == SortedSeq(S) IN TLCEval([ i \in 0 .. (k - 1) |-> q[((i + 1) % k) + 1] ])

(* TLC evaluates the invariants of initial states in one thread: the questions are successors of *)
(* one root state per k, so that the workers share them.                                        *)
Init == \E k \in 1 .. MaxK : k < N /\ p = [kind |-> "root", k |-> k, S |-> {}, arr |-> "-"]
Next ==
    /\ p.kind = "root"
    /\ \/ p' = [p EXCEPT !.kind = "enc"]
       \/ \E S \in kSubset(p.k, Pool) : \E a \in {"api", "rev", "rot"} :
              p' = [kind |-> "dec", k |-> p.k, S |-> S, arr |-> a]
Spec == Init /\ [][Next]_p

AsSeq(row, k) == [ j \in 1 .. k |-> row[j - 1] ]

EncIsGenerator ==
    p.kind = "enc" =>
        LET enc == EncRowsOn(p.k, Pool, M)
        IN  \A e \in Pool : IsGeneratorRow(AsSeq(enc[e], p.k), p.k, e, M)

FullMatrixAgrees ==       \* the full-matrix construction (as the code does it) and the row-wise one coincide
    (p.kind = "enc" /\ N <= 16) =>
        LET full == EncMatrix(p.k, N, M)
            rows == EncRowsOn(p.k, 0 .. (N - 1), M)
        IN  \A e \in 0 .. (N - 1) : full[e] = rows[e]

VdmInverse ==
    p.kind = "enc" =>
        LET top == [ r \in 0 .. (p.k - 1) |-> VdmFill(p.k, p.k, M)[r] ]
            inv == InvertVdm(top, p.k, M)
        IN  MatMul(top, inv, p.k, p.k, p.k, M) = Ident(p.k) /\ MatMul(inv, top, p.k, p.k, p.k, M) = Ident(p.k)

DecodeOK ==
    p.kind = "dec" =>
        LET k   == p.k
            idx == IF p.arr = "api" THEN ApiOrder(p.S, k) ELSE IF p.arr = "rev" THEN RevOrder(p.S, k) ELSE RotOrder(p.S, k)
            d   == Decode(EncRowsOn(k, p.S, M), idx, k, M)
        IN  /\ ~d.err                                  \* shuffle: no conflict, terminates
            /\ \A i \in 0 .. (k - 1) : d.idx[i] < k => d.idx[i] = i
            /\ { d.idx[i] : i \in 0 .. (k - 1) } = p.S
            /\ ~d.singular                             \* MDS: any k rows of the generator are independent
            /\ \A row \in 0 .. (k - 1) : d.out[row] = Ident(k)[row]

(***************************************************************************)
(* A lemma about the code, not a property: on every decoding matrix the    *)
(* API can produce (sources in their own slots after the shuffle) the      *)
(* diagonal element is a usable pivot at every step, so the off-diagonal   *)
(* pivot search, the row swaps and the final column swaps of invert_mat    *)
(* are never exercised by the codec (they are reachable only through the   *)
(* internal function, with arbitrary matrices).                            *)
(***************************************************************************)
DiagonalPivotsSuffice ==
    p.kind = "dec" =>
        LET k   == p.k
            idx == IF p.arr = "api" THEN ApiOrder(p.S, k) ELSE IF p.arr = "rev" THEN RevOrder(p.S, k) ELSE RotOrder(p.S, k)
        IN  ~Decode(EncRowsOn(k, p.S, M), idx, k, M).offdiag
=============================================================================
