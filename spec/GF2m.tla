------------------------------- MODULE GF2m -------------------------------
(***************************************************************************)
(* GF(2^4) = GF(2)[x]/(x^4+x+1) and GF(2^8) = GF(2)[x]/(x^8+x^4+x^3+x^2+1) *)
(* built from the primitive polynomials only.  Elements are naturals (the  *)
(* coefficient bits of the polynomial), addition is bitwise XOR,           *)
(* multiplication is defined by shift-and-reduce (MulDef); the exp/log     *)
(* tables used for speed are derived from "times x" and TLC checks that    *)
(* they agree with MulDef (see GF2m_check.cfg).                            *)
(***************************************************************************)
EXTENDS Naturals, Sequences, FiniteSets, SequencesExt, Bitwise, TLC

Poly(m) == IF m = 4 THEN 19 ELSE 285          \* 0b10011, 0b100011101 (0x11D)
Order(m) == 2 ^ m                             \* number of elements
NN(m) == 2 ^ m - 1                            \* multiplicative order of x

TimesX(a, m) == LET b == 2 * a IN IF b >= Order(m) THEN b ^^ Poly(m) ELSE b

(* definition of the product: sum over the bits of b of a * x^i, reduced *)
MulDef(a, b, m) ==
    LET step(acc, i) ==              \* acc = <<partial product, a * x^i>>
            << IF (b \div (2 ^ i)) % 2 = 1 THEN acc[1] ^^ acc[2] ELSE acc[1], TimesX(acc[2], m) >>
    IN  FoldLeft(step, <<0, a>>, [ i \in 1 .. m |-> i - 1 ])[1]

(* powers of the generator x: ExpSeq(m)[i+1] = x^i, i = 0 .. 2^m-2 *)
ExpSeq(m) == FoldLeft(LAMBDA acc, i : Append(acc, TimesX(acc[Len(acc)], m)), <<1>>, [ i \in 1 .. (NN(m) - 1) |-> i ])

Exp4 == ExpSeq(4)
Exp8 == ExpSeq(8)
ExpT(m) == IF m = 4 THEN Exp4 ELSE Exp8

Log4 == [ a \in 1 .. 15  |-> (CHOOSE i \in 1 .. 15  : Exp4[i] = a) - 1 ]
Log8 == [ a \in 1 .. 255 |-> (CHOOSE i \in 1 .. 255 : Exp8[i] = a) - 1 ]
LogT(m) == IF m = 4 THEN Log4 ELSE Log8

GExp(i, m) == ExpT(m)[(i % NN(m)) + 1]
GLog(a, m) == LogT(m)[a]

Mul(a, b, m) == IF a = 0 \/ b = 0 THEN 0 ELSE GExp(GLog(a, m) + GLog(b, m), m)
Inv(a, m) == GExp(NN(m) - GLog(a, m), m)         \* a # 0
Pow(a, e, m) == IF e = 0 THEN 1 ELSE IF a = 0 THEN 0 ELSE GExp((GLog(a, m) * e) % NN(m), m)

(* sum (XOR) of a sequence of field elements *)
Sum(seq) == FoldLeft(LAMBDA acc, v : acc ^^ v, 0, seq)

(***************************************************************************)
(* Reed-Solomon: evaluation points 0, 1, x, x^2, ... ; Vandermonde V with  *)
(* V[i][c] = point(i)^c; systematic generator G = V_rest * V_top^{-1},     *)
(* i.e. row g of ESI e is the unique vector with  g * V_top = V[e].        *)
(***************************************************************************)
Point(i, m) == IF i = 0 THEN 0 ELSE GExp(i - 1, m)

PointsDistinct(m) == \A i, j \in 0 .. NN(m) : i # j => Point(i, m) # Point(j, m) \/ i = NN(m) \/ j = NN(m)

(* g : sequence of k coefficients (g[j+1] for source j). *)
IsGeneratorRow(g, k, esi, m) ==
    \A c \in 0 .. (k - 1) :
        Sum([ j \in 1 .. k |-> Mul(g[j], Pow(Point(j - 1, m), c, m), m) ]) = Pow(Point(esi, m), c, m)

(***************************************************************************)
(* A built repair symbol observed with identity payloads: pairs <<pos,val>>*)
(* of the non-zero positions.  Source j carries 1 at position j, so the    *)
(* symbol *is* the generator row; positions >= k must stay zero.           *)
(***************************************************************************)
RowFromPairs(v, k) ==       \* TLCEval: evaluate once (TLC does not memoise applications of a function constructor)
    TLCEval([ j \in 1 .. k |-> LET hit == { i \in DOMAIN v : v[i][1] = j - 1 }
                               IN  IF hit = {} THEN 0 ELSE v[CHOOSE i \in hit : TRUE][2] ])

RsRowOK(codec, m0, k, esi, v, len) ==
    LET m == IF codec = 1 THEN 8 ELSE m0
    IN  /\ \A i \in DOMAIN v : v[i][1] < k
        /\ IsGeneratorRow(RowFromPairs(v, k), k, esi, m)

=============================================================================
