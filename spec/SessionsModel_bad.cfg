SPECIFICATION Spec
CONSTANTS
  Sess = {s1, s2, s3}
  SeedMenu <- SeedMenuDef
  AcceptOutOfRange = TRUE
INVARIANT Independent
CONSTRAINT Bounded
CHECK_DEADLOCK FALSE
