----------------------------- MODULE IndepTrace -----------------------------
(***************************************************************************)
(* C12 by self-composition on recorded traces.  The input is a sequence of *)
(* groups; each group holds one execution in which the calls of several    *)
(* sessions are interleaved (phase "inter"), followed by executions in     *)
(* which each of those sessions runs the same calls alone in a fresh       *)
(* process (phase "solo").  Every observation a session gets (status,      *)
(* completion, decoded vectors and pointer classes, built repair symbols,  *)
(* callback log, parity-check equations, per-session ledger) must be equal *)
(* line by line in both runs.                                              *)
(***************************************************************************)
EXTENDS Naturals, Integers, Sequences, FiniteSets, TLC, Json, IOUtils

TraceLog == TLCGet(7)
LoadLog == TLCSet(7, ndJsonDeserialize(IOEnv.TRACE))

VARIABLES l, phase, obs, grp, bad
vars == <<l, phase, obs, grp, bad>>

Volatile == {"x", "prng"}            \* execution number; global PRNG state (not a session observation)
Proj(ev) == [ f \in (DOMAIN ev \ Volatile) |-> ev[f] ]

Sids == 0 .. 15
Empty == [ s \in Sids |-> <<>> ]

Init == LoadLog /\ l = 1 /\ phase = "inter" /\ obs = Empty /\ grp = 0 /\ bad = FALSE

Next ==
    /\ l <= Len(TraceLog)
    /\ l' = l + 1
    /\ LET ev == TraceLog[l]
       IN  CASE ev.e = "Group" ->
                    /\ IF ev.phase = "inter" /\ ~bad /\ \E s \in Sids : obs[s] # <<>>
                       THEN PrintT(<<"VMSG", l, grp, "C12", "solo-run-shorter-than-interleaved", 0, "group">>)
                       ELSE TRUE
                    /\ phase' = ev.phase
                    /\ obs' = IF ev.phase = "inter" THEN Empty ELSE obs
                    /\ grp' = IF ev.phase = "inter" THEN grp + 1 ELSE grp
                    /\ bad' = IF ev.phase = "inter" THEN FALSE ELSE bad
             [] ev.e \in {"Reset"} -> UNCHANGED <<phase, obs, grp, bad>>
             [] ev.e = "MemFault" ->
                    /\ PrintT(<<"VMSG", l, grp, "C12", "memfault-" \o ev.what \o "-" \o ev.op, ev.codec, phase>>)
                    /\ bad' = TRUE
                    /\ UNCHANGED <<phase, obs, grp>>
             [] OTHER ->
                    IF bad THEN UNCHANGED <<phase, obs, grp, bad>>
                    ELSE IF phase = "inter"
                    THEN /\ obs' = [obs EXCEPT ![ev.s] = Append(@, Proj(ev))]
                         /\ UNCHANGED <<phase, grp, bad>>
                    ELSE LET q == obs[ev.s]
                         IN  IF q # <<>> /\ Head(q) = Proj(ev)
                             THEN /\ obs' = [obs EXCEPT ![ev.s] = Tail(q)]
                                  /\ UNCHANGED <<phase, grp, bad>>
                             ELSE /\ PrintT(<<"VMSG", l, grp, "C12", "session-observation-differs-when-interleaved-" \o ev.e, ev.s, "solo">>)
                                  /\ bad' = TRUE
                                  /\ UNCHANGED <<phase, obs, grp>>

TraceSpec == Init /\ [][Next]_vars
TraceConsumed == TLCGet("stats").diameter - 1 = Len(TraceLog)
=============================================================================
