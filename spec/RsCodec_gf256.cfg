SPECIFICATION Spec
CONSTANTS M = 8
 MaxK = 7
 Pool = {0,1,2,3,4,5,6,7,17,100,128,129,200,253,254}
INVARIANTS EncIsGenerator VdmInverse DecodeOK DiagonalPivotsSuffice
CHECK_DEADLOCK FALSE
