---------------------------- MODULE SparseMatrix ----------------------------
(***************************************************************************)
(* Sparse GF(2) matrix of the library (of_matrix_sparse.c, the conversions *)
(* of of_matrix_convert.c) as a state machine over a few matrix slots.     *)
(*                                                                         *)
(* A matrix carries                                                        *)
(*   E      the ABSTRACT value: a set of <<row, column>> pairs (C17 says   *)
(*          the module behaves as this set),                               *)
(*   row, col, at   the linked structure: per row / per column the list of *)
(*          entry ids in list order, and the (row, column) an entry holds, *)
(*   blocks, free, nb   the allocator: entries come in blocks of BlockSize *)
(*          (entry id = block * BlockSize + index), released entries are   *)
(*          pushed on the per-matrix free list, clear and free release the *)
(*          blocks.                                                        *)
(* The invariants state that the linked structure always represents E      *)
(* (find = membership, traversals = sorted projections) and that the free  *)
(* list never refers to a released block.  ResetFreeOnClear = TRUE is the  *)
(* design; FALSE is the variant "clear releases the blocks but keeps the   *)
(* head of the free list", kept to show that NoDangling is not vacuous.    *)
(*                                                                         *)
(* An operation is a record [op, a, b, r, c, v, w]; Enabled(S, o) is the   *)
(* documented in-range use, Apply(S, o) the effect.  The same two          *)
(* operators drive exhaustive model checking (Next), simulation export     *)
(* (SparseSim) and the validation of traces of the real code (SparseTrace).*)
(***************************************************************************)
EXTENDS Naturals, Integers, Sequences, FiniteSets, TLC, SequencesExt, FiniteSetsExt, Functions

CONSTANTS BlockSize,         \* entries per block: 1024 in the code, 2 to explore the allocator
          ResetFreeOnClear,  \* TRUE: the design
          Dims,              \* dimensions <<R, C>> offered to allocate (model checking)
          NSparse, NDense,   \* number of sparse / dense slots
          MaxDepth           \* bound on the length of operation sequences (model checking)

VARIABLES S,                 \* [sp : sequence of sparse matrices, dn : sequence of dense matrices]
          depth              \* number of operations applied so far (bounds model checking; part of the state so that
                             \* the bound is exact with any number of TLC workers)

NilS == [R |-> 0, C |-> 0, E |-> {}, row |-> <<>>, col |-> <<>>, at |-> <<>>, blocks |-> {}, free |-> <<>>, nb |-> 0]
NilD == [R |-> 0, C |-> 0, B |-> {}]
S0   == [sp |-> [i \in 1 .. NSparse |-> NilS], dn |-> [i \in 1 .. NDense |-> NilD]]

Mk(op, a, b, r, c, v, w) == [op |-> op, a |-> a, b |-> b, r |-> r, c |-> c, v |-> v, w |-> w]

Lex(x, y) == x[1] < y[1] \/ (x[1] = y[1] /\ x[2] < y[2])

(***************************************************************************)
(* Abstract projections of a set of pairs.                                 *)
(***************************************************************************)
RowSet(E, r, C) == { c \in 0 .. (C - 1) : <<r, c>> \in E }
ColSet(E, c, R) == { r \in 0 .. (R - 1) : <<r, c>> \in E }
RowSeq(E, r, C) == SetToSortSeq(RowSet(E, r, C), <)
ColSeq(E, c, R) == SetToSortSeq(ColSet(E, c, R), <)

(***************************************************************************)
(* The linked structure.                                                   *)
(***************************************************************************)
RowOf(m, id) == m.at[id][1]
ColOf(m, id) == m.at[id][2]
RowCols(m, r) == [k \in DOMAIN m.row[r + 1] |-> ColOf(m, m.row[r + 1][k])]   \* forward traversal of row r
ColRows(m, c) == [k \in DOMAIN m.col[c + 1] |-> RowOf(m, m.col[c + 1][k])]   \* forward traversal of column c
RowMajor(m)   == FlattenSeq([i \in 1 .. m.R |-> [k \in DOMAIN m.row[i] |-> m.at[m.row[i][k]]]])

AllocEntry(m) ==
    LET m1 == IF m.free = <<>>
              THEN [m EXCEPT !.blocks = @ \cup {m.nb}, !.nb = @ + 1,
                             !.free = [k \in 1 .. BlockSize |-> m.nb * BlockSize + (BlockSize - k)]]
              ELSE m
    IN  [m |-> [m1 EXCEPT !.free = Tail(@)], id |-> Head(m1.free)]

(* of_mod2sparse_find: last entry of the row, last entry of the column, then both lists in parallel *)
FindImpl(m, r, c) ==
    LET rl == m.row[r + 1]
        cl == m.col[c + 1]
        Stop(k) == \/ k > Len(rl) \/ k > Len(cl)
                   \/ ColOf(m, rl[k]) >= c \/ RowOf(m, cl[k]) >= r
    IN  IF rl = <<>> \/ ColOf(m, Last(rl)) < c THEN -1
        ELSE IF ColOf(m, Last(rl)) = c THEN Last(rl)
        ELSE IF cl = <<>> \/ RowOf(m, Last(cl)) < r THEN -1
        ELSE IF RowOf(m, Last(cl)) = r THEN Last(cl)
        ELSE LET k0 == Min({ k \in 1 .. (Len(rl) + 1) : Stop(k) })
             IN  IF k0 > Len(rl) \/ ColOf(m, rl[k0]) > c THEN -1
                 ELSE IF ColOf(m, rl[k0]) = c THEN rl[k0]
                 ELSE IF k0 > Len(cl) \/ RowOf(m, cl[k0]) > r THEN -1
                 ELSE IF RowOf(m, cl[k0]) = r THEN cl[k0]
                 ELSE -1

Ins(m, r, c) ==
    IF \E k \in DOMAIN m.row[r + 1] : ColOf(m, m.row[r + 1][k]) = c THEN m      \* idempotent
    ELSE LET al == AllocEntry(m)
             m1 == al.m
             id == al.id
             rl == m1.row[r + 1]
             cl == m1.col[c + 1]
             rp == Cardinality({ k \in DOMAIN rl : ColOf(m1, rl[k]) < c })
             cp == Cardinality({ k \in DOMAIN cl : RowOf(m1, cl[k]) < r })
         IN  [m1 EXCEPT !.at = (id :> <<r, c>>) @@ @,
                        !.row[r + 1] = InsertAt(rl, rp + 1, id),
                        !.col[c + 1] = InsertAt(cl, cp + 1, id),
                        !.E = @ \cup {<<r, c>>}]

Del(m, r, c) ==
    LET id == FindImpl(m, r, c)
    IN  IF id = -1 THEN m
        ELSE [m EXCEPT !.at = [i \in (DOMAIN m.at) \ {id} |-> m.at[i]],
                       !.row[r + 1] = Remove(@, id),
                       !.col[c + 1] = Remove(@, id),
                       !.free = <<id>> \o @,
                       !.E = @ \ {<<r, c>>}]

Clear(m) == [m EXCEPT !.E = {}, !.at = <<>>, !.blocks = {},
                      !.row = [i \in 1 .. m.R |-> <<>>], !.col = [j \in 1 .. m.C |-> <<>>],
                      !.free = IF ResetFreeOnClear THEN <<>> ELSE @]

New(R, C) == [NilS EXCEPT !.R = R, !.C = C, !.row = [i \in 1 .. R |-> <<>>], !.col = [j \in 1 .. C |-> <<>>]]

InsAll(m, pairs) == FoldLeft(LAMBDA acc, e : Ins(acc, e[1], e[2]), m, pairs)

(* the pairs the copy procedures insert, in the order in which the code inserts them *)
CopyRowsPairs(m, nrows, v) == FlattenSeq([i \in 1 .. nrows |-> [k \in DOMAIN m.row[v[i] + 1] |-> <<i - 1, ColOf(m, m.row[v[i] + 1][k])>>]])
CopyColsPairs(m, ncols, v) == FlattenSeq([j \in 1 .. ncols |-> [k \in DOMAIN m.col[v[j] + 1] |-> <<RowOf(m, m.col[v[j] + 1][k]), j - 1>>]])
FilledPairs(m, v, w)       == LET rm == RowMajor(m) IN [k \in DOMAIN rm |-> <<v[rm[k][1] + 1], w[rm[k][2] + 1]>>]

Live(m) == IF m.R = 0 THEN 0 ELSE 3 + Cardinality(m.blocks)      \* heap allocations owned by the matrix

(***************************************************************************)
(* Operations.                                                             *)
(***************************************************************************)
SpLive(S_, a) == a \in 0 .. (NSparse - 1) /\ S_.sp[a + 1].R > 0
DnLive(S_, a) == a \in 0 .. (NDense - 1) /\ S_.dn[a + 1].R > 0
InRange(v, n) == \A i \in DOMAIN v : v[i] \in 0 .. (n - 1)

Enabled(S_, o) ==
    LET A == S_.sp[o.a + 1]
        B == S_.sp[o.b + 1]
        DA == S_.dn[o.a + 1]
        DB == S_.dn[o.b + 1]
    IN  CASE o.op = "salloc" -> o.a \in 0 .. (NSparse - 1) /\ A.R = 0 /\ o.r >= 1 /\ o.c >= 1
          [] o.op \in {"sins", "sfind", "sdel", "sq"} -> SpLive(S_, o.a) /\ o.r \in 0 .. (A.R - 1) /\ o.c \in 0 .. (A.C - 1)
          [] o.op \in {"sclear", "sfree"} -> SpLive(S_, o.a)
          [] o.op = "scopy" -> SpLive(S_, o.a) /\ SpLive(S_, o.b) /\ o.a # o.b /\ A.R <= B.R /\ A.C <= B.C
          [] o.op \in {"scopyrows", "scopyrows_opt"} ->
                /\ SpLive(S_, o.a) /\ SpLive(S_, o.b) /\ o.a # o.b /\ A.C <= B.C
                /\ Len(o.v) = B.R /\ InRange(o.v, A.R)
                /\ (o.op = "scopyrows_opt" => B.E = {})      \* the _opt variants do not clear: specified for an empty destination only
          [] o.op \in {"scopycols", "scopycols_opt"} ->
                /\ SpLive(S_, o.a) /\ SpLive(S_, o.b) /\ o.a # o.b /\ A.R <= B.R
                /\ Len(o.v) = B.C /\ InRange(o.v, A.C)
                /\ (o.op = "scopycols_opt" => B.E = {})
          [] o.op = "sfilled" ->
                /\ SpLive(S_, o.a) /\ SpLive(S_, o.b) /\ o.a # o.b
                /\ Len(o.v) = A.R /\ InRange(o.v, B.R) /\ Len(o.w) = A.C /\ InRange(o.w, B.C)
                /\ B.E = {}                                   \* no clear in the code: specified for an empty destination only
          [] o.op = "s2d" -> SpLive(S_, o.a) /\ DnLive(S_, o.b) /\ A.R <= DB.R /\ A.C <= DB.C
          [] o.op = "d2s" -> DnLive(S_, o.a) /\ SpLive(S_, o.b) /\ DA.R <= B.R /\ DA.C <= B.C
          [] o.op = "dalloc" -> o.a \in 0 .. (NDense - 1) /\ DA.R = 0 /\ o.r >= 1 /\ o.c >= 1
          [] o.op \in {"dflip", "dset"} -> DnLive(S_, o.a) /\ o.r \in 0 .. (DA.R - 1) /\ o.c \in 0 .. (DA.C - 1)
          [] o.op = "dload" -> DnLive(S_, o.a) /\ Len(o.v) = Len(o.w) /\ InRange(o.v, DA.R) /\ InRange(o.w, DA.C)
          [] o.op = "dfree" -> DnLive(S_, o.a)
          [] OTHER -> FALSE

Apply(S_, o) ==
    LET A == S_.sp[o.a + 1]
        B == S_.sp[o.b + 1]
        DA == S_.dn[o.a + 1]
        DB == S_.dn[o.b + 1]
        SetA(m) == [S_ EXCEPT !.sp[o.a + 1] = m]
        SetB(m) == [S_ EXCEPT !.sp[o.b + 1] = m]
    IN  CASE o.op = "salloc" -> SetA(New(o.r, o.c))
          [] o.op = "sins"   -> SetA(Ins(A, o.r, o.c))
          [] o.op = "sdel"   -> SetA(Del(A, o.r, o.c))
          [] o.op \in {"sfind", "sq"} -> S_
          [] o.op = "sclear" -> SetA(Clear(A))
          [] o.op = "sfree"  -> SetA(NilS)
          [] o.op = "scopy"  -> SetB(InsAll(Clear(B), RowMajor(A)))
          [] o.op = "scopyrows"     -> SetB(InsAll(Clear(B), CopyRowsPairs(A, B.R, o.v)))
          [] o.op = "scopyrows_opt" -> SetB(InsAll(B, CopyRowsPairs(A, B.R, o.v)))
          [] o.op = "scopycols"     -> SetB(InsAll(Clear(B), CopyColsPairs(A, B.C, o.v)))
          [] o.op = "scopycols_opt" -> SetB(InsAll(B, CopyColsPairs(A, B.C, o.v)))
          [] o.op = "sfilled" -> SetB(InsAll(B, FilledPairs(A, o.v, o.w)))
          [] o.op = "s2d"    -> [S_ EXCEPT !.dn[o.b + 1].B = ToSet(RowMajor(A))]
          [] o.op = "d2s"    -> SetB(InsAll(Clear(B), SetToSortSeq(DA.B, Lex)))
          [] o.op = "dalloc" -> [S_ EXCEPT !.dn[o.a + 1] = [R |-> o.r, C |-> o.c, B |-> {}]]
          [] o.op = "dflip"  -> [S_ EXCEPT !.dn[o.a + 1].B = SymDiff(@, {<<o.r, o.c>>})]
          [] o.op = "dset"   -> [S_ EXCEPT !.dn[o.a + 1].B = IF o.b # 0 THEN @ \cup {<<o.r, o.c>>} ELSE @ \ {<<o.r, o.c>>}]
          [] o.op = "dload"  -> [S_ EXCEPT !.dn[o.a + 1].B = { <<o.v[i], o.w[i]>> : i \in DOMAIN o.v }]
          [] o.op = "dfree"  -> [S_ EXCEPT !.dn[o.a + 1] = NilD]

(***************************************************************************)
(* Model checking: every sequence of state-changing operations.            *)
(***************************************************************************)
SSlots == 0 .. (NSparse - 1)
DSlots == 0 .. (NDense - 1)
MaxR == IF Dims = {} THEN 0 ELSE Max({ d[1] : d \in Dims })
MaxC == IF Dims = {} THEN 0 ELSE Max({ d[2] : d \in Dims })
IdxSeqs(n, k) == [1 .. n -> 0 .. (k - 1)]

Do(o) == Enabled(S, o) /\ S' = Apply(S, o)

(* every state-changing operation with every in-range argument (find and the row/column queries do not change the
   state: their answers are the subject of the invariants) *)
Step ==
    \/ \E a \in SSlots, d \in Dims : Do(Mk("salloc", a, 0, d[1], d[2], <<>>, <<>>))
    \/ \E op \in {"sins", "sdel"}, a \in SSlots, r \in 0 .. (MaxR - 1), c \in 0 .. (MaxC - 1) : Do(Mk(op, a, 0, r, c, <<>>, <<>>))
    \/ \E op \in {"sclear", "sfree"}, a \in SSlots : Do(Mk(op, a, 0, 0, 0, <<>>, <<>>))
    \/ \E a \in SSlots, b \in SSlots : Do(Mk("scopy", a, b, 0, 0, <<>>, <<>>))
    \/ \E a \in SSlots, b \in SSlots : \E v \in IdxSeqs(S.sp[b + 1].R, S.sp[a + 1].R), op \in {"scopyrows", "scopyrows_opt"} : Do(Mk(op, a, b, 0, 0, v, <<>>))
    \/ \E a \in SSlots, b \in SSlots : \E v \in IdxSeqs(S.sp[b + 1].C, S.sp[a + 1].C), op \in {"scopycols", "scopycols_opt"} : Do(Mk(op, a, b, 0, 0, v, <<>>))
    \/ \E a \in SSlots, b \in SSlots : \E v \in IdxSeqs(S.sp[a + 1].R, S.sp[b + 1].R), w \in IdxSeqs(S.sp[a + 1].C, S.sp[b + 1].C) : Do(Mk("sfilled", a, b, 0, 0, v, w))
    \/ \E a \in SSlots, b \in DSlots : Do(Mk("s2d", a, b, 0, 0, <<>>, <<>>))
    \/ \E a \in DSlots, b \in SSlots : Do(Mk("d2s", a, b, 0, 0, <<>>, <<>>))
    \/ \E a \in DSlots, d \in Dims : Do(Mk("dalloc", a, 0, d[1], d[2], <<>>, <<>>))
    \/ \E a \in DSlots, r \in 0 .. (MaxR - 1), c \in 0 .. (MaxC - 1) : Do(Mk("dflip", a, 0, r, c, <<>>, <<>>))
    \/ \E a \in DSlots : Do(Mk("dfree", a, 0, 0, 0, <<>>, <<>>))

(* dimension sets for the configurations (a .cfg file cannot write tuples) *)
DimsNone   == {}
DimsTiny   == {<<1, 2>>, <<2, 2>>}
DimsSmall  == {<<1, 2>>, <<2, 2>>, <<2, 3>>}
DimsMedium == {<<2, 2>>, <<2, 3>>, <<3, 2>>, <<3, 3>>}
Dims3x3    == {<<2, 3>>, <<3, 3>>}

Init == S = S0 /\ depth = 0
Next == depth < MaxDepth /\ Step /\ depth' = depth + 1

(***************************************************************************)
(* Invariants (per matrix m).                                              *)
(***************************************************************************)
MatTypeOK(m) ==
    /\ m.E \subseteq (0 .. (m.R - 1)) \X (0 .. (m.C - 1))
    /\ DOMAIN m.row = 1 .. m.R /\ DOMAIN m.col = 1 .. m.C

(* the linked structure represents exactly E *)
MatAbstraction(m) ==
    /\ { m.at[id] : id \in DOMAIN m.at } = m.E
    /\ Cardinality(DOMAIN m.at) = Cardinality(m.E)

(* each row / column traversal lists exactly that row's / column's entries in increasing order *)
MatTraversals(m) ==
    /\ \A r \in 0 .. (m.R - 1) : RowCols(m, r) = RowSeq(m.E, r, m.C) /\ \A k \in DOMAIN m.row[r + 1] : RowOf(m, m.row[r + 1][k]) = r
    /\ \A c \in 0 .. (m.C - 1) : ColRows(m, c) = ColSeq(m.E, c, m.R) /\ \A k \in DOMAIN m.col[c + 1] : ColOf(m, m.col[c + 1][k]) = c

(* find agrees with membership and returns the entry of that position *)
MatFind(m) ==
    \A r \in 0 .. (m.R - 1), c \in 0 .. (m.C - 1) :
        LET id == FindImpl(m, r, c)
        IN  /\ (id # -1) <=> (<<r, c>> \in m.E)
            /\ id # -1 => m.at[id] = <<r, c>>

(* neither the free list nor the structure refers to an entry of a released block *)
MatNoDangling(m) == \A id \in ToSet(m.free) \cup DOMAIN m.at : (id \div BlockSize) \in m.blocks

(* every entry of every block is either in use or on the free list, exactly once *)
MatConservation(m) ==
    /\ Len(m.free) + Cardinality(DOMAIN m.at) = BlockSize * Cardinality(m.blocks)
    /\ Cardinality(ToSet(m.free)) = Len(m.free)
    /\ ToSet(m.free) \cap DOMAIN m.at = {}

MatInv(m) == MatTypeOK(m) /\ MatAbstraction(m) /\ MatTraversals(m) /\ MatFind(m) /\ MatNoDangling(m) /\ MatConservation(m)

TypeOK       == \A i \in 1 .. NSparse : MatTypeOK(S.sp[i])
Abstraction  == \A i \in 1 .. NSparse : MatAbstraction(S.sp[i])
Traversals   == \A i \in 1 .. NSparse : MatTraversals(S.sp[i])
FindIsMember == \A i \in 1 .. NSparse : MatFind(S.sp[i])
NoDangling   == \A i \in 1 .. NSparse : MatNoDangling(S.sp[i])
Conservation == \A i \in 1 .. NSparse : MatConservation(S.sp[i])
FreedIsEmpty == \A i \in 1 .. NSparse : S.sp[i].R = 0 => S.sp[i] = NilS /\ Live(S.sp[i]) = 0
DenseTypeOK  == \A i \in 1 .. NDense : S.dn[i].B \subseteq (0 .. (S.dn[i].R - 1)) \X (0 .. (S.dn[i].C - 1))

=============================================================================
