SPECIFICATION Spec
CONSTANT MaxN = 5
INVARIANTS RsMds StatusTruth CompleteAll Origins CbContract ScanInRange Counters
CHECK_DEADLOCK FALSE
