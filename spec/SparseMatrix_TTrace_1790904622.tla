---- MODULE SparseMatrix_TTrace_1790904622 ----
EXTENDS Sequences, SparseMatrix, TLCExt, Toolbox, Naturals, TLC

_expression ==
    LET SparseMatrix_TEExpression == INSTANCE SparseMatrix_TEExpression
    IN SparseMatrix_TEExpression!expression
----

_trace ==
    LET SparseMatrix_TETrace == INSTANCE SparseMatrix_TETrace
    IN SparseMatrix_TETrace!trace
----

_inv ==
    ~(
        TLCGet("level") = Len(_TETrace)
        /\
        S = ([sp |-> <<[R |-> 1, C |-> 2, E |-> {}, row |-> <<<<>>>>, col |-> <<<<>>, <<>>>>, at |-> <<>>, blocks |-> {}, free |-> <<0>>, nb |-> 1], [R |-> 0, C |-> 0, E |-> {}, row |-> <<>>, col |-> <<>>, at |-> <<>>, blocks |-> {}, free |-> <<>>, nb |-> 0]>>, dn |-> <<[R |-> 0, C |-> 0, B |-> {}]>>])
        /\
        depth = (3)
    )
----

_init ==
    /\ S = _TETrace[1].S
    /\ depth = _TETrace[1].depth
----

_next ==
    /\ \E i,j \in DOMAIN _TETrace:
        /\ \/ /\ j = i + 1
              /\ i = TLCGet("level")
        /\ S  = _TETrace[i].S
        /\ S' = _TETrace[j].S
        /\ depth  = _TETrace[i].depth
        /\ depth' = _TETrace[j].depth

\* Uncomment the ASSUME below to write the states of the error trace
\* to the given file in Json format. Note that you can pass any tuple
\* to `JsonSerialize`. For example, a sub-sequence of _TETrace.
    \* ASSUME
    \*     LET J == INSTANCE Json
    \*         IN J!JsonSerialize("SparseMatrix_TTrace_1790904622.json", _TETrace)

=============================================================================

 Note that you can extract this module `SparseMatrix_TEExpression`
  to a dedicated file to reuse `expression` (the module in the 
  dedicated `SparseMatrix_TEExpression.tla` file takes precedence 
  over the module `SparseMatrix_TEExpression` below).

---- MODULE SparseMatrix_TEExpression ----
EXTENDS Sequences, SparseMatrix, TLCExt, Toolbox, Naturals, TLC

expression == 
    [
        \* To hide variables of the `SparseMatrix` spec from the error trace,
        \* remove the variables below.  The trace will be written in the order
        \* of the fields of this record.
        S |-> S
        ,depth |-> depth
        
        \* Put additional constant-, state-, and action-level expressions here:
        \* ,_stateNumber |-> _TEPosition
        \* ,_SUnchanged |-> S = S'
        
        \* Format the `S` variable as Json value.
        \* ,_SJson |->
        \*     LET J == INSTANCE Json
        \*     IN J!ToJson(S)
        
        \* Lastly, you may build expressions over arbitrary sets of states by
        \* leveraging the _TETrace operator.  For example, this is how to
        \* count the number of times a spec variable changed up to the current
        \* state in the trace.
        \* ,_SModCount |->
        \*     LET F[s \in DOMAIN _TETrace] ==
        \*         IF s = 1 THEN 0
        \*         ELSE IF _TETrace[s].S # _TETrace[s-1].S
        \*             THEN 1 + F[s-1] ELSE F[s-1]
        \*     IN F[_TEPosition - 1]
    ]

=============================================================================



Parsing and semantic processing can take forever if the trace below is long.
 In this case, it is advised to uncomment the module below to deserialize the
 trace from a generated binary file.

\*
\*---- MODULE SparseMatrix_TETrace ----
\*EXTENDS IOUtils, SparseMatrix, TLC
\*
\*trace == IODeserialize("SparseMatrix_TTrace_1790904622.bin", TRUE)
\*
\*=============================================================================
\*

---- MODULE SparseMatrix_TETrace ----
EXTENDS SparseMatrix, TLC

trace == 
    <<
    ([S |-> [sp |-> <<[R |-> 0, C |-> 0, E |-> {}, row |-> <<>>, col |-> <<>>, at |-> <<>>, blocks |-> {}, free |-> <<>>, nb |-> 0], [R |-> 0, C |-> 0, E |-> {}, row |-> <<>>, col |-> <<>>, at |-> <<>>, blocks |-> {}, free |-> <<>>, nb |-> 0]>>, dn |-> <<[R |-> 0, C |-> 0, B |-> {}]>>],depth |-> 0]),
    ([S |-> [sp |-> <<[R |-> 1, C |-> 2, E |-> {}, row |-> <<<<>>>>, col |-> <<<<>>, <<>>>>, at |-> <<>>, blocks |-> {}, free |-> <<>>, nb |-> 0], [R |-> 0, C |-> 0, E |-> {}, row |-> <<>>, col |-> <<>>, at |-> <<>>, blocks |-> {}, free |-> <<>>, nb |-> 0]>>, dn |-> <<[R |-> 0, C |-> 0, B |-> {}]>>],depth |-> 1]),
    ([S |-> [sp |-> <<[R |-> 1, C |-> 2, E |-> {<<0, 0>>}, row |-> <<<<1>>>>, col |-> <<<<1>>, <<>>>>, at |-> <<<<0, 0>>>>, blocks |-> {0}, free |-> <<0>>, nb |-> 1], [R |-> 0, C |-> 0, E |-> {}, row |-> <<>>, col |-> <<>>, at |-> <<>>, blocks |-> {}, free |-> <<>>, nb |-> 0]>>, dn |-> <<[R |-> 0, C |-> 0, B |-> {}]>>],depth |-> 2]),
    ([S |-> [sp |-> <<[R |-> 1, C |-> 2, E |-> {}, row |-> <<<<>>>>, col |-> <<<<>>, <<>>>>, at |-> <<>>, blocks |-> {}, free |-> <<0>>, nb |-> 1], [R |-> 0, C |-> 0, E |-> {}, row |-> <<>>, col |-> <<>>, at |-> <<>>, blocks |-> {}, free |-> <<>>, nb |-> 0]>>, dn |-> <<[R |-> 0, C |-> 0, B |-> {}]>>],depth |-> 3])
    >>
----


=============================================================================

---- CONFIG SparseMatrix_TTrace_1790904622 ----
CONSTANTS
    BlockSize = 2
    ResetFreeOnClear = FALSE
    Dims <- DimsSmall
    NSparse = 2
    NDense = 1
    MaxDepth = 6

INVARIANT
    _inv

CHECK_DEADLOCK
    \* CHECK_DEADLOCK off because of PROPERTY or INVARIANT above.
    FALSE

INIT
    _init

NEXT
    _next

CONSTANT
    _TETrace <- _trace

ALIAS
    _expression
=============================================================================
\* Generated on Fri Oct 02 01:30:23 UTC 2026