------------------------------ MODULE ApiModel ------------------------------
(***************************************************************************)
(* Layer A as a state machine: one decoder session of any stable codec     *)
(* driven by the documented protocol (environment assumption Env):         *)
(*     ( decode_with_new_symbol*  |  set_available_symbols once )          *)
(*     -> [ finish_decoding ]                                              *)
(* TLC checks, over every history of the small menu, the design-level      *)
(* properties of the API specification itself (completion never reverts,   *)
(* the result depends only on the received set, incremental closure =      *)
(* batch closure, pointer bookkeeping consistent), and in -simulate mode   *)
(* generates behaviours (JSON, one per walk) that are replayed in the real *)
(* library and validated by ApiTrace.                                      *)
(***************************************************************************)
EXTENDS OpenFecApi, PchkRfc5170, TLC, Json, SequencesExt, FiniteSetsExt

CONSTANTS Menu,         \* set of parameter points [codec, k, r, m, N1, seed]
          Track         \* TRUE: record the operation sequence (behaviour generation); FALSE: model checking

VARIABLES s, ops, done
mvars == <<s, ops, done>>

SesOf(p) ==
    LET c == IF p.codec = 3 THEN Rfc5170(p.k, p.r, p.N1, p.seed) ELSE [H |-> <<>>, extra |-> FALSE]
        s0 == [NoSes EXCEPT !.phase = "configured", !.codec = p.codec, !.role = "dec", !.k = p.k, !.n = p.k + p.r,
                            !.m = p.m, !.H = c.H,
                            !.claim = (p.codec = 3 /\ p.N1 % 2 = 0 /\ ~c.extra)]
    IN  [ f \in (DOMAIN s0) \cup {"viaset"} |->
            IF f = "viaset" THEN FALSE
            ELSE IF f = "known" THEN (IF p.codec = 3 THEN PeelClosure(c.H, Pre(s0)) ELSE {})
            ELSE s0[f] ]

Init == /\ \E p \in Menu : s = SesOf(p) /\ ops = << <<"point", p.codec, p.k, p.r, p.m, p.N1, p.seed>> >>
        /\ done = FALSE

All == 0 .. (s.n - 1)

Recv(e) ==
    /\ ~done /\ ~s.finished          \* also after of_set_available_symbols: later arrivals come one by one
    /\ s' = RecvNext(s, e)
    /\ ops' = IF Track THEN Append(ops, <<"recv", e>>) ELSE ops
    /\ UNCHANGED done

SetAvail(S) ==
    /\ ~done /\ ~s.finished /\ s.rcvd = {} /\ ~s.viaset
    /\ s' = [SetAvailNext(s, S) EXCEPT !.viaset = TRUE]
    /\ ops' = IF Track THEN Append(ops, <<"setavail", SetToSortSeq(S, LAMBDA a, b : a < b)>>) ELSE ops
    /\ UNCHANGED done

Finish ==
    /\ ~done /\ ~s.finished
    /\ s' = FinishNext(s)
    /\ ops' = IF Track THEN Append(ops, <<"finish">>) ELSE ops
    /\ UNCHANGED done

Next == (\E e \in All : Recv(e)) \/ (\E S \in SUBSET All : SetAvail(S)) \/ Finish

Spec == Init /\ [][Next]_mvars

-----------------------------------------------------------------------------
(* C10: completion never reverts *)
Monotone == [][Complete(s) => Complete(s')]_mvars

(* C03/C04: what is available is a function of the received set (and of whether finish was called) *)
SetOnly ==
    IF IsRS(s) THEN TRUE
    ELSE /\ s.known = PeelClosure(s.H, s.rcvd \cup Pre(s))
         /\ s.finished => (s.mlok <=> SourceDetermined(s.H, s.k, s.rcvd \cup Pre(s)))

(* C02: RS completion threshold *)
RsThreshold ==
    IsRS(s) => /\ s.done => Cardinality(s.rcvd) >= s.k
               /\ (s.finished /\ Cardinality(s.rcvd) >= s.k) => s.done

(* C10: pointer bookkeeping: symbols kept by pointer were received and are available *)
Held == /\ s.appHeld \subseteq (s.rcvd \cap Src(s))
        /\ (~IsRS(s) \/ s.done) => s.appHeld \subseteq Avail(s)

(* peeling never contradicts solvability: everything released by peeling is determined *)
PeelSound == IsBin(s) => (s.known \cap Src(s)) \subseteq DeterminedSources(s.H, s.k, s.rcvd \cup Pre(s))

-----------------------------------------------------------------------------
(* behaviour generation (-simulate): random walk, exported when it ends *)
WalkEnd == s.finished \/ Len(ops) > s.n + 4

Export ==
    /\ ~done /\ WalkEnd
    /\ PrintT("ABEH " \o ToJson([ops |-> ops, avail |-> SetToSortSeq(Avail(s), LAMBDA a, b : a < b),
                                 complete |-> Complete(s)]))
    /\ done' = TRUE
    /\ UNCHANGED <<s, ops>>

GNext ==
    \/ Export
    \/ /\ ~WalkEnd
       /\ LET c == RandomElement(1 .. 10)
          IN  IF c = 1 /\ s.rcvd = {} /\ ~s.viaset THEN SetAvail(RandomElement(SUBSET All))
              ELSE IF c = 2 /\ s.rcvd # {} THEN Finish
              ELSE IF s.viaset /\ c <= 5 THEN Finish
              ELSE Recv(RandomElement(All))

GSpec == Init /\ [][GNext]_mvars
=============================================================================
