INIT Init
NEXT Next
CONSTANTS
  MaxK = 6
  MaxR = 6
  Seeds = {1, 2, 3, 5, 8, 13, 21, 34}
INVARIANTS Staircase ColumnWeights RowDegrees LastNullLemma EncoderDefined
CHECK_DEADLOCK FALSE
