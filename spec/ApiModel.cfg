SPECIFICATION Spec
CONSTANT Menu <- MenuQuick
CONSTANT Track = FALSE
INVARIANTS SetOnly RsThreshold Held PeelSound
PROPERTY Monotone
CHECK_DEADLOCK FALSE
