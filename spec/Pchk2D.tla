------------------------------- MODULE Pchk2D -------------------------------
(***************************************************************************)
(* Structure of a d x l product single-parity ("2D parity") code, stated   *)
(* on a parity-check system given as rows of ESIs (sources 0..k-1, repair  *)
(* i = ESI k+i): every check owns its repair symbol, every source symbol   *)
(* lies in exactly one row check and one column check, checks of the same  *)
(* kind are disjoint and checks of different kinds meet in exactly one     *)
(* source symbol.                                                          *)
(***************************************************************************)
EXTENDS Naturals, FiniteSets, Sequences

SrcOf(H, k, i) == H[i] \cap (0 .. (k - 1))

IsProductCode(H, k, r) ==
    LET Rows == DOMAIN H
        first == 1
        RowKind == { i \in Rows : i = first \/ SrcOf(H, k, i) \cap SrcOf(H, k, first) = {} }
        ColKind == Rows \ RowKind
    IN  /\ Len(H) = r
        /\ \A i \in Rows : H[i] \ (0 .. (k - 1)) = { k + i - 1 }                  \* own repair symbol only
        /\ \A j \in 0 .. (k - 1) : Cardinality({ i \in RowKind : j \in H[i] }) = 1
        /\ \A j \in 0 .. (k - 1) : Cardinality({ i \in ColKind : j \in H[i] }) = 1
        /\ \A a, b \in RowKind : a # b => SrcOf(H, k, a) \cap SrcOf(H, k, b) = {}
        /\ \A a, b \in ColKind : a # b => SrcOf(H, k, a) \cap SrcOf(H, k, b) = {}
        /\ \A a \in RowKind, b \in ColKind : Cardinality(SrcOf(H, k, a) \cap SrcOf(H, k, b)) = 1
        /\ Cardinality(RowKind) * Cardinality(ColKind) = k
        /\ Cardinality(RowKind) + Cardinality(ColKind) = r
=============================================================================
