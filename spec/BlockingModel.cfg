INIT Init
NEXT Next
CONSTANTS
  MaxB = 24
  MaxL = 60
  MaxE = 7
INVARIANTS Consequences Rejects WideAgrees
CHECK_DEADLOCK FALSE
