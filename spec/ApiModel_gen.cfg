SPECIFICATION GSpec
CONSTANT Menu <- MenuGen
CONSTANT Track = TRUE
CHECK_DEADLOCK FALSE
