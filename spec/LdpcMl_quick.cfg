SPECIFICATION MSpec
CONSTANT UseCb = FALSE
CONSTANT Points <- MlPointsQuick
INVARIANTS MlLedgerOK MlNoLeakAtRelease MlComplete MlStatus MlSound MlNoNullDest MlIndexInRange RankLemma ItBeforeFinish
CHECK_DEADLOCK FALSE
