---------------------------- MODULE SessionsModel ----------------------------
(***************************************************************************)
(* Design-level model of the one piece of process-global state that feeds  *)
(* session results: the Park-Miller state `of_seed'.  Sessions configure   *)
(* LDPC codes in any interleaving; of_rfc5170_srand ignores an out-of-range*)
(* seed and keeps the previous state.  With AcceptOutOfRange = FALSE (the  *)
(* parameter check of C09) every session's matrix is a function of its own *)
(* parameters (invariant Independent); with TRUE, TLC exhibits the         *)
(* interference (kept as SessionsModel_bad.cfg, expected to fail).         *)
(***************************************************************************)
EXTENDS Naturals, Integers, Sequences, FiniteSets, TLC, ParkMiller, PchkRfc5170

CONSTANTS Sess, SeedMenu, AcceptOutOfRange

VARIABLES glob,    \* of_seed
          cfg,     \* session -> "none" | record [seed, H]
          steps
vars == <<glob, cfg, steps>>

K == 2
R == 3
NN1 == 3

Init == glob = 0 /\ cfg = [ s \in Sess |-> [seed |-> -1, H |-> <<>>, st |-> "none"] ] /\ steps = 0

InRange(v) == v >= 1 /\ v <= P31 - 1

SetParams(s, v) ==
    /\ cfg[s].st = "none"
    /\ IF InRange(v) \/ AcceptOutOfRange
       THEN LET start == Seed(glob, v)           \* srand: ignored when out of range
                c     == IF start = 0 THEN [H |-> <<"unseeded">>, final |-> 0] ELSE Rfc5170(K, R, NN1, start)
            IN  /\ cfg' = [cfg EXCEPT ![s] = [seed |-> v, H |-> c.H, st |-> "ok"]]
                /\ glob' = c.final
       ELSE /\ cfg' = [cfg EXCEPT ![s] = [seed |-> v, H |-> <<>>, st |-> "rejected"]]
            /\ UNCHANGED glob
    /\ steps' = steps + 1

Release(s) ==
    /\ cfg[s].st # "none"
    /\ cfg' = [cfg EXCEPT ![s] = [seed |-> -1, H |-> <<>>, st |-> "none"]]
    /\ UNCHANGED glob
    /\ steps' = steps + 1

Next == \E s \in Sess : (\E v \in SeedMenu : SetParams(s, v)) \/ Release(s)

Spec == Init /\ [][Next]_vars

(* what a session holds depends only on its own parameters *)
Independent ==
    \A s \in Sess : cfg[s].st = "ok" => InRange(cfg[s].seed) /\ cfg[s].H = Rfc5170(K, R, NN1, cfg[s].seed).H

Bounded == steps <= 7
SeedMenuDef == {0, 1, 77, 2147483646, 2147483647, -1}
=============================================================================
