---------------------------- MODULE BlockingModel ----------------------------
(***************************************************************************)
(* Exhaustive check over a small grid that the definition in module        *)
(* Blocking has the consequences property C20 lists, and that its two      *)
(* transcriptions (native integers / Nat64 digits) agree.                  *)
(***************************************************************************)
EXTENDS Naturals, Integers, Sequences, TLC, Blocking

CONSTANTS MaxB, MaxL, MaxE
VARIABLE pt

Init == pt \in [B : 1 .. MaxB, L : 1 .. MaxL, E : 1 .. MaxE]
Next == UNCHANGED pt

X == BlockingI(pt.B, pt.L, pt.E)

Consequences ==
    /\ X.T >= 1 /\ X.N >= 1 /\ X.T * pt.E >= pt.L /\ (X.T - 1) * pt.E < pt.L      \* T = ceil(L/E)
    /\ X.N * pt.B >= X.T /\ (X.N - 1) * pt.B < X.T                                \* N = ceil(T/B)
    /\ X.As * X.N <= X.T /\ (X.As + 1) * X.N > X.T                                \* floor
    /\ X.Al * X.N >= X.T /\ (X.Al - 1) * X.N < X.T                                \* ceil
    /\ X.Al <= pt.B
    /\ X.I >= 0 /\ X.I < X.N /\ X.I = X.T % X.N
    /\ X.Al - X.As = (IF X.I = 0 THEN 0 ELSE 1)
    /\ X.I * X.Al + (X.N - X.I) * X.As = X.T
    /\ FailI(pt.B, pt.L, pt.E, <<X.N, X.I, X.Al, X.As>>) = ""

(* a structure that differs in N, A_small or A_large, or breaks the sum, is rejected *)
Rejects ==
    /\ FailI(pt.B, pt.L, pt.E, <<X.N + 1, X.I, X.Al, X.As>>) = "nb-blocks-wrong"
    /\ FailI(pt.B, pt.L, pt.E, <<X.N, X.I, X.Al, X.As + 1>>) = "a-small-wrong"
    /\ FailI(pt.B, pt.L, pt.E, <<X.N, X.I, X.Al + 1, X.As>>) = "a-large-wrong"
    /\ X.Al # X.As => FailI(pt.B, pt.L, pt.E, <<X.N, X.I + 1, X.Al, X.As>>) \in {"sum-differs-from-T", "I-exceeds-N"}

WideAgrees ==
    LET W == BlockingW(FromInt(pt.B), FromInt(pt.L), FromInt(pt.E))
    IN  /\ W.ok
        /\ W.T = FromInt(X.T) /\ W.N = FromInt(X.N) /\ W.I = FromInt(X.I)
        /\ W.Al = FromInt(X.Al) /\ W.As = FromInt(X.As)
        /\ FailW(FromInt(pt.B), FromInt(pt.L), FromInt(pt.E), <<W.N, W.I, W.Al, W.As>>, W) = ""

(* the 32-bit floor division of Nat64 on operands around every digit boundary, incl. divisors >= 2^30 *)
Edge32 == { <<d1, d2, d3, 0, 0>> : d1 \in {0, 1, 32767}, d2 \in {0, 1, 32767}, d3 \in 0 .. 3 }
ASSUME \A a \in Edge32, b \in Edge32 \ {NZero} : DivModOk(a, b, NDivMod32(a, b))
=============================================================================
