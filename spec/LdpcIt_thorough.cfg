SPECIFICATION Spec
CONSTANT UseCb = FALSE
CONSTANT Points <- PointsThorough
INVARIANTS Sound ItIsPeeling CountersSane PartialSums NoNullDeref ClaimTruthful LedgerOK NoLeakAtRelease
CHECK_DEADLOCK FALSE
