SPECIFICATION Spec
CONSTANT Points <- PointsThorough
INVARIANTS Sound ItIsPeeling CountersSane PartialSums NoNullDeref ClaimTruthful
CHECK_DEADLOCK FALSE
