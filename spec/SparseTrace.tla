---------------------------- MODULE SparseTrace ----------------------------
(***************************************************************************)
(* Validates a trace of matrix_driver (the REAL sparse matrix module and   *)
(* the conversions, run under AddressSanitizer with a malloc ledger)       *)
(* against SparseMatrix: every recorded operation must be an in-range use  *)
(* (Enabled), is replayed with Apply, and the observed projection of the   *)
(* operand matrices (both forward traversals, both backward traversals,    *)
(* the answer of find for every position, the returned value) must be the  *)
(* projection of the abstract set E of the specification's next state.     *)
(* A sanitizer fault and blocks surviving free are C17 violations.  One    *)
(* trace line per TLC step; after the first divergence of an execution the *)
(* remaining lines of that execution are skipped (the next Reset resumes). *)
(***************************************************************************)
EXTENDS SparseMatrix, Json, IOUtils

TraceLog == TLCGet(7)
LoadLog == TLCSet(7, ndJsonDeserialize(IOEnv.TRACE))

VARIABLES l,     \* next trace line
          dead,  \* the current execution diverged or faulted
          clr    \* per sparse slot: the matrix was cleared (explicitly or by a copy into it) since it was allocated
vars == <<l, S, depth, dead, clr>>

OpName == [salloc |-> "allocate", sins |-> "insert", sfind |-> "find", sdel |-> "delete", sq |-> "row-col-queries",
           sclear |-> "clear", sfree |-> "free", scopy |-> "copy", scopyrows |-> "copyrows",
           scopyrows_opt |-> "copyrows_opt", scopycols |-> "copycols", scopycols_opt |-> "copycols_opt",
           sfilled |-> "copy_filled_matrix", s2d |-> "to_dense", d2s |-> "to_sparse",
           dalloc |-> "dense-allocate", dflip |-> "dense-flip", dset |-> "dense-set", dload |-> "dense-load", dfree |-> "dense-free",
           none |-> "teardown"]
NameOf(op) == IF op \in DOMAIN OpName THEN OpName[op] ELSE op

ClearingOps == {"sclear", "scopy", "scopyrows", "scopycols", "d2s"}
TwoSparse   == {"scopy", "scopyrows", "scopyrows_opt", "scopycols", "scopycols_opt", "sfilled"}
DestOf(o)   == IF o.op \in TwoSparse \cup {"d2s"} THEN o.b ELSE o.a

Msg(ev, tags, name, ctx) == PrintT(<<"VMSG", l, ev.x, tags, name, 0, ctx>>)
Chk(ev, cond, name, ctx) == IF cond THEN TRUE ELSE Msg(ev, "C17", name, ctx) /\ FALSE

(* expected observation of a sparse matrix: everything is derived from the abstract set E *)
SProjOK(ev, o, p, m, who) ==
    LET wrong == NameOf(o.op) \o "-wrong-result"
        rows  == [i \in 1 .. m.R |-> RowSeq(m.E, i - 1, m.C)]
        cols  == [j \in 1 .. m.C |-> ColSeq(m.E, j - 1, m.R)]
    IN  /\ Chk(ev, p.R = m.R /\ p.C = m.C, wrong, who \o ": dimensions")
        /\ Chk(ev, p.find = rows, wrong, who \o ": find disagrees with membership in the set model")
        /\ Chk(ev, p.rows = rows, wrong, who \o ": forward row traversal is not the sorted row of the set model")
        /\ Chk(ev, p.cols = cols, wrong, who \o ": forward column traversal is not the sorted column of the set model")
        /\ Chk(ev, p.rrows = [i \in 1 .. m.R |-> Reverse(rows[i])], wrong, who \o ": backward row traversal")
        /\ Chk(ev, p.rcols = [j \in 1 .. m.C |-> Reverse(cols[j])], wrong, who \o ": backward column traversal")
        /\ Chk(ev, p.bad = 0, wrong, who \o ": an entry carries another position than the list it is linked in")
        /\ (IF p.live = Live(m) THEN TRUE ELSE PrintT(<<"DRIFT", l, ev.x, "live-allocations " \o ToString(p.live) \o " model " \o ToString(Live(m))>>))

DProjOK(ev, o, p, d, who) ==
    LET wrong == NameOf(o.op) \o "-wrong-result"
    IN  /\ Chk(ev, p.R = d.R /\ p.C = d.C, wrong, who \o ": dimensions")
        /\ Chk(ev, p.bits = [i \in 1 .. d.R |-> RowSeq(d.B, i - 1, d.C)], wrong, who \o ": dense bits differ from the set model")

Observed(ev, o, S1, S2) ==
    LET A2 == S2.sp[o.a + 1]
        A1 == S1.sp[o.a + 1]
        wrong == NameOf(o.op) \o "-wrong-result"
    IN  CASE o.op = "salloc" -> Chk(ev, ev.ret = 1, wrong, "allocation refused") /\ SProjOK(ev, o, ev.sa, A2, "new matrix")
          [] o.op = "sins"   -> Chk(ev, ev.ret = 1, wrong, "returned entry is not the requested position") /\ SProjOK(ev, o, ev.sa, A2, "matrix")
          [] o.op = "sfind"  -> Chk(ev, ev.ret = (IF <<o.r, o.c>> \in A1.E THEN 1 ELSE 0), wrong, "answer differs from membership") /\ SProjOK(ev, o, ev.sa, A2, "matrix")
          [] o.op = "sdel"   -> Chk(ev, ev.ret = (IF <<o.r, o.c>> \in A1.E THEN 1 ELSE 0), wrong, "find before delete differs from membership") /\ SProjOK(ev, o, ev.sa, A2, "matrix")
          [] o.op = "sq"     -> /\ Chk(ev, ev.q = <<IF RowSet(A1.E, o.r, A1.C) = {} THEN 1 ELSE 0, IF ColSet(A1.E, o.c, A1.R) = {} THEN 1 ELSE 0, Cardinality(RowSet(A1.E, o.r, A1.C))>>,
                                       wrong, "empty_row / empty_col / weight_row")
                                /\ SProjOK(ev, o, ev.sa, A2, "matrix")
          [] o.op = "sclear" -> SProjOK(ev, o, ev.sa, A2, "matrix")
          [] o.op = "sfree"  -> Chk(ev, ev.sa.live = 0, "free-leaves-blocks", "allocations of the matrix still live after of_mod2sparse_free + free: " \o ToString(ev.sa.live))
          [] o.op \in TwoSparse -> SProjOK(ev, o, ev.sa, A2, "source") /\ SProjOK(ev, o, ev.sb, S2.sp[o.b + 1], "destination")
          [] o.op = "s2d"    -> SProjOK(ev, o, ev.sa, A2, "source") /\ DProjOK(ev, o, ev.db, S2.dn[o.b + 1], "destination")
          [] o.op = "d2s"    -> DProjOK(ev, o, ev.da, S2.dn[o.a + 1], "source") /\ SProjOK(ev, o, ev.sb, S2.sp[o.b + 1], "destination")
          [] o.op \in {"dalloc", "dflip", "dset", "dload", "dfree"} -> DProjOK(ev, o, ev.da, S2.dn[o.a + 1], "dense matrix")

OpOf(ev) == Mk(ev.op, ev.a, ev.b, ev.r, ev.c, ev.v, ev.w)

ClrAfter(o) ==
    CASE o.op \in {"salloc", "sfree"} -> [clr EXCEPT ![o.a + 1] = FALSE]
      [] o.op \in ClearingOps -> [clr EXCEPT ![DestOf(o) + 1] = TRUE]
      [] OTHER -> clr

FaultKey(ev) ==
    LET o == OpOf(ev)
        d == DestOf(o)
        cleared == /\ o.op \in DOMAIN OpName /\ o.op \notin {"none", "dalloc", "dflip", "dset", "dload", "dfree", "s2d"}
                   /\ d \in 0 .. (NSparse - 1)
                   /\ (clr[d + 1] \/ o.op \in ClearingOps)
    IN  "memfault-" \o NameOf(ev.op) \o (IF cleared THEN "-after-clear" ELSE "")

(* every invariant of SparseMatrix stays enabled on the state reached by each recorded step
   (the quadratic ones only on matrices of at most 100 positions) *)
ModelInv(m) == IF m.R * m.C <= 100 THEN MatInv(m)
               ELSE MatTypeOK(m) /\ MatAbstraction(m) /\ MatNoDangling(m) /\ MatConservation(m)

TInit == LoadLog /\ l = 1 /\ depth = 0 /\ S = S0 /\ dead = FALSE /\ clr = [i \in 1 .. NSparse |-> FALSE]

OpStep(ev) ==
    LET o == OpOf(ev)
    IN  IF ~Enabled(S, o)
        THEN Msg(ev, "INFRA", "operation-outside-the-specified-use", ev.op) /\ dead' = TRUE /\ UNCHANGED <<S, clr>>
        ELSE LET S2 == Apply(S, o)
             IN  /\ S' = S2
                 /\ clr' = ClrAfter(o)
                 /\ dead' = ~Observed(ev, o, S, S2)
                 /\ (IF o.op \in {"sfind", "sq", "sfree", "dalloc", "dflip", "dset", "dload", "dfree", "s2d"} \/ ModelInv(S2.sp[DestOf(o) + 1]) THEN TRUE
                     ELSE Msg(ev, "INFRA", "model-invariant-broken", ev.op))

TNext ==
    /\ l <= Len(TraceLog)
    /\ l' = l + 1
    /\ UNCHANGED depth
    /\ LET ev == TraceLog[l]
       IN  CASE ev.e = "Reset" -> S' = S0 /\ dead' = FALSE /\ clr' = [i \in 1 .. NSparse |-> FALSE]
             [] ev.e = "MemFault" -> /\ (IF dead THEN TRUE ELSE Msg(ev, "C17", FaultKey(ev), ev.what))
                                     /\ dead' = TRUE /\ UNCHANGED <<S, clr>>
             [] ev.e = "Proto" -> Msg(ev, "INFRA", "driver-protocol-error", ev.why) /\ dead' = TRUE /\ UNCHANGED <<S, clr>>
             [] ev.e = "Op" -> IF dead THEN UNCHANGED <<S, dead, clr>> ELSE OpStep(ev)

TraceSpec == TInit /\ [][TNext]_vars
TraceConsumed == TLCGet("stats").diameter - 1 = Len(TraceLog)
=============================================================================
