SPECIFICATION TraceSpec
CONSTANT Points = {}
CHECK_DEADLOCK FALSE
POSTCONDITION TraceConsumed
