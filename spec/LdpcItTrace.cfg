SPECIFICATION TraceSpec
CONSTANT UseCb = FALSE
CONSTANT Points = {}
CHECK_DEADLOCK FALSE
POSTCONDITION TraceConsumed
