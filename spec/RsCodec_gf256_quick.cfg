SPECIFICATION Spec
CONSTANTS M = 8
 MaxK = 5
 Pool = {0,1,2,3,4,5,17,100,129,200,253,254}
INVARIANTS EncIsGenerator VdmInverse DecodeOK DiagonalPivotsSuffice
CHECK_DEADLOCK FALSE
