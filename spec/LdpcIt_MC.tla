----------------------------- MODULE LdpcIt_MC -----------------------------
EXTENDS LdpcIt
P(k, r, n1, s) == [k |-> k, r |-> r, N1 |-> n1, seed |-> s]
PointsQuick == { P(4,3,3,1), P(5,4,3,2), P(6,4,4,1), P(3,5,3,7), P(1,3,3,1), P(6,3,3,3) }
\* every state costs ~0.15 s (eight invariants, each a closure or a whole-table comparison): points up to n = 11
PointsThorough == PointsQuick \cup { P(2,3,3,5), P(5,5,4,9), P(7,4,4,3), P(5,5,5,9), P(3,7,4,5) }
=============================================================================
