---------------------------- MODULE BlockingTrace ----------------------------
(***************************************************************************)
(* C20: validates a trace recorded by harness/blocking_driver.c (the real  *)
(* of_compute_blocking_struct of applis/eperftool/blocking_struct.c)       *)
(* against module Blocking.  One record per TLC step.                      *)
(*   "g" : B, E, L0 and rows[j] = <<N, I, A_large, A_small>> observed for  *)
(*         L = L0 + j - 1, plain integers (-1 = does not fit 31 bits)      *)
(*   "w" : one call, every quantity as base-2^15 digits (up to 2^32-1)     *)
(* Message: <<"VMSG", line, first failing row (0 for "w"), "C20", check,   *)
(*            number of failing rows of the record, context>>              *)
(***************************************************************************)
EXTENDS Naturals, Integers, Sequences, FiniteSets, TLC, Json, IOUtils, SequencesExt, FiniteSetsExt, Blocking

TraceLog == TLCGet(7)
LoadLog == TLCSet(7, ndJsonDeserialize(IOEnv.TRACE))

VARIABLES l
vars == <<l>>

Grid(ev) ==
    LET n == Len(ev.rows)
        fail(j) == FailI(ev.B, ev.L0 + j - 1, ev.E, ev.rows[j])
        names == { fail(j) : j \in 1 .. n } \ {""}
    IN  /\ IF ev.B >= 1 /\ ev.E >= 1 /\ ev.L0 >= 1 /\ ev.L0 + n + ev.E < 1073741824 THEN TRUE
           ELSE PrintT(<<"VMSG", l, 0, "INFRA", "grid-record", 0, "">>)
        /\ \A nm \in names :
              LET js == { j \in 1 .. n : fail(j) = nm }
              IN  PrintT(<<"VMSG", l, Min(js), "C20", nm, Cardinality(js), "N<2^31">>)

Wide(ev) ==
    LET B == NPad(ev.B)
        L == NPad(ev.L)
        E == NPad(ev.E)
        o == <<NPad(ev.N), NPad(ev.I), NPad(ev.Al), NPad(ev.As)>>
        X == BlockingW(B, L, E)
        nm == FailW(B, L, E, o, X)
    IN  /\ IF IsN(B) /\ IsN(L) /\ IsN(E) /\ Fits32(B) /\ Fits32(L) /\ Fits32(E) /\ B # NZero /\ L # NZero /\ E # NZero
              /\ \A i \in 1 .. 4 : IsN(o[i]) /\ Fits32(o[i])
           THEN TRUE ELSE PrintT(<<"VMSG", l, 0, "INFRA", "w-record", 0, "">>)
        /\ IF X.ok THEN TRUE ELSE PrintT(<<"VMSG", l, 0, "INFRA", "spec-division-selfcheck", 0, "">>)
        /\ IF nm = "" THEN TRUE
           ELSE PrintT(<<"VMSG", l, 0, "C20", nm, 1, IF NLeq(N2p31, X.N) THEN "N>=2^31" ELSE "N<2^31">>)

Init == LoadLog /\ l = 1

Next ==
    /\ l <= Len(TraceLog)
    /\ l' = l + 1
    /\ LET ev == TraceLog[l]
       IN  CASE ev.e = "g" -> Grid(ev)
             [] ev.e = "w" -> Wide(ev)
             [] ev.e = "crash" -> PrintT(<<"VMSG", l, 0, "C20", "crash-in-of_compute_blocking_struct", 1, "wide">>)
             [] OTHER      -> PrintT(<<"VMSG", l, 0, "INFRA", "unknown-record", 0, "">>)

TraceSpec == Init /\ [][Next]_vars
TraceConsumed == TLCGet("stats").diameter - 1 = Len(TraceLog)
=============================================================================
