----------------------------- MODULE ParamCheck -----------------------------
(***************************************************************************)
(* The advertised parameter limits of the stable codecs (C09).  32-bit     *)
(* quantities are pairs <<hi16, lo16>> because TLC integers are 32-bit.    *)
(***************************************************************************)
EXTENDS Naturals, Integers, Sequences

Small(w) == w[1] = 0                      \* value < 2^16
Val(w) == w[2]                            \* value of a Small word
NonZero(w) == w[1] > 0 \/ w[2] > 0

P31m1 == 2147483646

(* advertised limits: mathematical for the Reed-Solomon codecs, OF_CTRL_GET_MAX_K/N for LDPC *)
MaxK(codec, m, advK) == IF codec = 1 THEN 255 ELSE IF codec = 2 THEN 2 ^ m - 1 ELSE advK
MaxN(codec, m, advN) == IF codec = 1 THEN 255 ELSE IF codec = 2 THEN 2 ^ m - 1 ELSE advN

InLimits(codec, kw, rw, lw, m, N1, seed, advK, advN) ==
    /\ codec = 2 => m \in {4, 8}
    /\ Small(kw) /\ Small(rw)
    /\ Val(kw) >= 1 /\ Val(kw) <= MaxK(codec, m, advK)
    /\ Val(rw) >= 1
    /\ Val(kw) + Val(rw) <= MaxN(codec, m, advN)
    /\ NonZero(lw)
    /\ codec = 3 => (N1 >= 3 /\ N1 <= Val(rw) /\ seed >= 1 /\ seed <= P31m1)

(* which clause of InLimits a point violates first (used to name a finding precisely) *)
WhichLimit(codec, kw, rw, lw, m, N1, seed, advK, advN) ==
    IF codec = 2 /\ m \notin {4, 8} THEN "m-not-4-or-8"
    ELSE IF ~Small(kw) \/ Val(kw) > MaxK(codec, m, advK) THEN "k-above-max"
    ELSE IF Val(kw) < 1 THEN "k-zero"
    ELSE IF Small(rw) /\ Val(rw) < 1 THEN "r-zero"
    ELSE IF ~Small(rw) \/ Val(kw) + Val(rw) > MaxN(codec, m, advN) THEN "n-above-max"
    ELSE IF ~NonZero(lw) THEN "length-zero"
    ELSE IF codec = 3 /\ N1 < 3 THEN "N1-below-3"
    ELSE IF codec = 3 /\ N1 > Val(rw) THEN "N1-above-r"
    ELSE IF codec = 3 /\ (seed < 1 \/ seed > P31m1) THEN "seed-out-of-range"
    ELSE "in-limits"
=============================================================================
