---------------------------- MODULE LdpcItTrace ----------------------------
(***************************************************************************)
(* Strict (layer-B) binding of the implementation-shaped IT decoder model  *)
(* LdpcIt to the real decoder: after set_fec_parameters and after every    *)
(* of_decode_with_new_symbol / of_set_available_symbols of an LDPC decoder *)
(* session the model takes the same step and its internal state must equal *)
(* the projection of the control block logged by of_driver (per-equation   *)
(* unknown counters, remaining degrees, presence of partial sums, the      *)
(* remaining entries of the parity-check matrix, the set of stored         *)
(* symbols).  A mismatch is DRIFT (the transcription no longer describes   *)
(* the code), not a property violation: properties are judged by ApiTrace. *)
(***************************************************************************)
EXTENDS LdpcMl, Json, IOUtils

TraceLog == TLCGet(7)
LoadLog == TLCSet(7, ndJsonDeserialize(IOEnv.TRACE))

VARIABLES l, cwv, active, nsteps, nfin
tvars == <<pt, tab, M, unk, deg, ct, nrep, led, rcvd, nullderef, fin, l, cwv, active, nsteps, nfin>>

Dummy == [k |-> 1, r |-> 1, N1 |-> 3, seed |-> 1]
VecOf(v) == { v[i][1] : i \in DOMAIN v }

InitFromH(H, k, r) ==
    [ tab |-> [ e \in 0 .. (k + r - 1) |-> NoVal ],
      M   |-> UNION { { <<row, e>> : e \in H[row + 1] } : row \in 0 .. (r - 1) },
      unk |-> [ row \in 0 .. (r - 1) |-> Cardinality(H[row + 1]) ],
      deg |-> [ row \in 0 .. (r - 1) |-> Cardinality(H[row + 1]) ],
      ct  |-> [ row \in 0 .. (r - 1) |-> NoVal ],
      nrep |-> 0,
      led |-> [ ctid |-> [ row \in 0 .. (r - 1) |-> 0 ], bid |-> [ e \in 0 .. (k + r - 1) |-> 0 ], heap |-> {}, bad |-> FALSE ],
      bad |-> FALSE ]

SameAsLogged(st, it, p) ==
    /\ \A row \in 0 .. (p.r - 1) :
          /\ st.unk[row] = it.unk[row + 1]
          /\ st.deg[row] = it.deg[row + 1]
          /\ (st.ct[row] # NoVal) = (it.ct[row + 1] = 1)
          /\ { e[2] : e \in { f \in st.M : f[1] = row } } = ToSet(it.rows[row + 1])
    /\ { e \in 0 .. (p.k + p.r - 1) : st.tab[e] # NoVal } = ToSet(it.known)
    /\ st.nrep = it.nrep

Adopt(st) ==
    /\ tab' = st.tab /\ M' = st.M /\ unk' = st.unk /\ deg' = st.deg /\ ct' = st.ct /\ nrep' = st.nrep /\ led' = st.led /\ nullderef' = st.bad

Keep == UNCHANGED <<pt, tab, M, unk, deg, ct, nrep, led, rcvd, nullderef, cwv, active, nsteps>>

Init2 ==
    /\ LoadLog
    /\ l = 1 /\ pt = Dummy /\ cwv = <<>> /\ active = FALSE /\ nsteps = 0 /\ rcvd = {} /\ fin = NoFin /\ nfin = 0
    /\ tab = <<>> /\ M = {} /\ unk = <<>> /\ deg = <<>> /\ ct = <<>> /\ nrep = 0 /\ led = [ctid |-> <<>>, bid |-> <<>>, heap |-> {}, bad |-> FALSE] /\ nullderef = FALSE

Check(st, ev, p) ==
    IF SameAsLogged(st, ev.it, p)
    THEN /\ Adopt(st) /\ active' = TRUE /\ nsteps' = nsteps + 1 /\ nfin' = nfin
    ELSE /\ PrintT(<<"DRIFT", l, ev.x, "LdpcIt-state-differs-after-" \o ev.e>>)
         /\ Adopt(st) /\ active' = FALSE /\ nsteps' = nsteps /\ nfin' = nfin

TNext ==
    /\ l <= Len(TraceLog)
    /\ l' = l + 1
    /\ LET ev == TraceLog[l]
       IN  CASE ev.e = "SetParams" /\ ev.codec = 3 /\ ev.role = "dec" /\ ev.st = 0 /\ ev.s = 0 /\ "it" \in DOMAIN ev /\ "cw" \in DOMAIN ev ->
                    LET p  == [k |-> ev.k, r |-> ev.r, N1 |-> ev.N1, seed |-> ev.seed]
                        H  == [ i \in DOMAIN ev.H |-> ToSet(ev.H[i]) ]
                        s0 == InitFromH(H, ev.k, ev.r)
                        s1 == IF ev.lastnull = 1 THEN [InjectB(p, [s0 EXCEPT !.led = LAlloc(s0.led, 4000)], ev.k + ev.r - 1, {}, 4000) EXCEPT !.led = LFree(@, 4000)] ELSE s0
                    IN  /\ pt' = p
                        /\ cwv' = [ e \in 0 .. (ev.k + ev.r - 1) |-> VecOf(ev.cw[e + 1]) ]
                        /\ rcvd' = {}
                        /\ Check(s1, ev, p)
             [] ev.e = "Recv" /\ active /\ ev.s = 0 /\ "it" \in DOMAIN ev ->
                    /\ Check(Inject(pt, StateRec, ev.esi, cwv[ev.esi]), ev, pt)
                    /\ rcvd' = rcvd \cup {ev.esi}
                    /\ UNCHANGED <<pt, cwv>>
             [] ev.e = "SetAvail" /\ active /\ ev.s = 0 /\ "it" \in DOMAIN ev ->
                    /\ Check(FoldLeft(LAMBDA st, e : Inject(pt, st, e, cwv[e]), StateRec, SetToSortSeq(ToSet(ev.set), LAMBDA a, b : a < b)), ev, pt)
                    /\ rcvd' = rcvd \cup ToSet(ev.set)
                    /\ UNCHANGED <<pt, cwv>>
             [] ev.e = "Finish" /\ active /\ ev.s = 0 /\ "ml" \in DOMAIN ev ->
                    LET perm == IF Len(ev.ml.perm) = pt.r THEN ev.ml.perm ELSE [ j \in 1 .. pt.r |-> j - 1 ]
                        f    == FinishRec(pt, StateRec, perm)
                        \* what the code logged: pivot rows (0-based) per column, then the failing column if any
                        logged == [ j \in 1 .. Len(ev.ml.piv) |-> ev.ml.piv[j] + 1 ] \o (IF ev.ml.fail > 0 THEN << -ev.ml.fail >> ELSE <<>>)
                        dimsOk == f.stage \in {"already"} \/ (ev.ml.simpl[1] = f.dims[1] /\ ev.ml.simpl[2] = f.dims[2])
                        same == /\ f.status = ev.st
                                /\ f.piv = logged
                                /\ dimsOk
                                /\ { i \in Src(pt) : f.st.tab[i] # NoVal } = ToSet(ev.ml.known)
                    IN  /\ IF same THEN nfin' = nfin + 1
                           ELSE PrintT(<<"DRIFT", l, ev.x, "LdpcMl-finish-differs-stage-" \o f.stage>>) /\ nfin' = nfin
                        /\ active' = FALSE
                        /\ UNCHANGED <<pt, tab, M, unk, deg, ct, nrep, led, rcvd, nullderef, cwv, nsteps>>
             [] ev.e \in {"Finish", "Release", "Reset", "MemFault"} /\ (ev.e \in {"Reset", "MemFault"} \/ ev.s = 0) ->
                    /\ active' = FALSE
                    /\ UNCHANGED <<pt, tab, M, unk, deg, ct, nrep, led, rcvd, nullderef, cwv, nsteps, nfin>>
             [] OTHER -> Keep /\ nfin' = nfin
    /\ fin' = fin
    /\ IF l = Len(TraceLog) THEN PrintT(<<"ITSTEPS", nsteps'>>) /\ PrintT(<<"MLSTEPS", nfin'>>) ELSE TRUE

TraceSpec == Init2 /\ [][TNext]_tvars
TraceConsumed == TLCGet("stats").diameter - 1 = Len(TraceLog)
=============================================================================
