SPECIFICATION Spec
CONSTANTS
  Sess = {s1, s2, s3}
  SeedMenu <- SeedMenuDef
  AcceptOutOfRange = FALSE
INVARIANT Independent
CONSTRAINT Bounded
CHECK_DEADLOCK FALSE
