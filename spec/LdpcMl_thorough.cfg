SPECIFICATION MSpec
CONSTANT UseCb = FALSE
CONSTANT Points <- MlPointsThorough
INVARIANTS MlComplete MlStatus MlSound MlNoNullDest MlIndexInRange RankLemma ItBeforeFinish
CHECK_DEADLOCK FALSE
