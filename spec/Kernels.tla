------------------------------ MODULE Kernels ------------------------------
(***************************************************************************)
(* C13: the byte-wise definitions of the symbol kernels, the spec-defined  *)
(* operand contents, and the case space that has to be exercised.          *)
(*                                                                         *)
(* A symbol is a sequence of bytes (naturals 0..255).  Kernels:            *)
(*   kid 0 xor1   of_add_to_symbol (to, from, size)                        *)
(*   kid 1 xfrom  of_add_from_multiple_symbols (to, from[], n, size)       *)
(*   kid 2 xto    of_add_to_multiple_symbols (to[], from, n, size)         *)
(*   kid 3 rsmul  of_addmul1 (dst, src, c, size)          GF(2^8), codec 1 *)
(*   kid 4 m8mul  of_galois_field_2_8_addmul1             GF(2^8), codec 2 *)
(*   kid 5 m4mul  of_galois_field_2_4_addmul1  one GF(2^4) element per byte*)
(*   kid 6 m4cmp  of_galois_field_2_4_addmul1_compact  two elements per    *)
(*                byte: high nibble and low nibble are independent elements*)
(* Field products use Mul of GF2m.tla; TableTrace.tla (C14 run) checks     *)
(* Mul = MulDef for every pair of both fields.                             *)
(***************************************************************************)
EXTENDS Naturals, Integers, Sequences, FiniteSets, SequencesExt, FiniteSetsExt, Bitwise, GF2m, TLC

KernelName == <<"xor1", "xfrom", "xto", "rsmul", "m8mul", "m4mul", "m4cmp">>     \* KernelName[kid + 1]

(* Tup(n, F) is the sequence << F(1), ..., F(n) >>, i.e. [ i \in 1 .. n |-> F(i) ], evaluated eagerly so that TLC
   builds it once instead of re-evaluating F at every later application (the trace spec compares whole sequences). *)
Tup(n, F(_)) == TLCEval([ i \in 1 .. n |-> F(i) ])       \* forced: built once, in linear time (symbols of thousands of bytes)

(* ------------------------------------------------ byte-wise definitions *)
XorSym(d, s) == Tup(Len(d), LAMBDA i : d[i] ^^ s[i])
AddFromMultiple(d, srcs) == FoldLeft(XorSym, d, srcs)
AddToMultiple(dsts, s) == Tup(Len(dsts), LAMBDA j : XorSym(dsts[j], s))
AddMul(d, s, c, m) == Tup(Len(d), LAMBDA i : d[i] ^^ Mul(c, s[i], m))
Hi(b) == b \div 16
Lo(b) == b % 16
AddMulCompact(d, s, c) ==
    Tup(Len(d), LAMBDA i : 16 * (Hi(d[i]) ^^ Mul(c, Hi(s[i]), 4)) + (Lo(d[i]) ^^ Mul(c, Lo(s[i]), 4)))

(* ------------------------------------------------------ operand contents *)
(* byte i (0-based) of operand j; sources are operands 0 .. n-1, destinations 32, 33, ... *)
(* patterns 0 and 1 have period 256 in i; pattern 2 (long symbols) does not repeat at any power of two, so that data
   taken from the wrong 256-byte, 4096-byte ... block is visible *)
Byte(p, i, j) == IF p = 0 THEN (37 * i + 11 * j + 5) % 256
                 ELSE IF p = 1 THEN ((i + 1) * (j + 3) * 167 + i * i * 13 + 91) % 256
                 ELSE IF p = 2 THEN (37 * i + 29 * (i \div 251) + 11 * j + 5) % 256
                 ELSE IF (i \div 16) % 3 = 1 THEN 0 ELSE (37 * i + 11 * j + 5) % 256     \* pattern 3: whole 16-byte chunks of zeros
Content(kid, p, i, j) == IF kid = 5 THEN Byte(p, i, j) % 16 ELSE Byte(p, i, j)
Sym(kid, p, j, sz) == Tup(sz, LAMBDA i : Content(kid, p, i - 1, j))

NDst(kid, n) == IF kid = 2 THEN n ELSE 1
NSrc(kid, n) == IF kid = 1 THEN n ELSE 1
NBuf(kid, n) == NDst(kid, n) + NSrc(kid, n)        \* buffers are numbered 0 .. NBuf-1: destinations first

Dsts(kid, p, n, sz) == Tup(NDst(kid, n), LAMBDA d : Sym(kid, p, 32 + d - 1, sz))
Srcs(kid, p, n, sz) == Tup(NSrc(kid, n), LAMBDA s : Sym(kid, p, s - 1, sz))

(* contents of all buffers after the call (sources are unchanged) *)
ExpectedBufs(kid, sz, n, p, c) ==
    LET D == Dsts(kid, p, n, sz)
        S == Srcs(kid, p, n, sz)
        R == CASE kid = 0 -> << XorSym(D[1], S[1]) >>
               [] kid = 1 -> << AddFromMultiple(D[1], S) >>
               [] kid = 2 -> AddToMultiple(D, S[1])
               [] kid \in {3, 4} -> << AddMul(D[1], S[1], c, 8) >>
               [] kid = 5 -> << AddMul(D[1], S[1], c, 4) >>
               [] kid = 6 -> << AddMulCompact(D[1], S[1], c) >>
    IN  R \o S

(* manual guard bytes of variant 1 (16 on each side of buffer b = 0 .. 23); constant tables *)
GuardTabL == Tup(24, LAMBDA b1 : Tup(16, LAMBDA i : (195 + 7 * (b1 - 1) + (i - 1)) % 256))
GuardTabR == Tup(24, LAMBDA b1 : Tup(16, LAMBDA i : (60 + 5 * (b1 - 1) + 3 * (i - 1)) % 256))
GuardL(v, b) == IF v = 0 THEN << >> ELSE GuardTabL[b + 1]
GuardR(v, b) == IF v = 0 THEN << >> ELSE GuardTabR[b + 1]

(* buffers whose bytes the driver must log: every destination; the sources too in
   variant 1 when there are at most two of them *)
Logged(kid, n, v) ==
    Tup(NDst(kid, n), LAMBDA b : b - 1) \o
    (IF v = 1 /\ NSrc(kid, n) <= 2 THEN Tup(NSrc(kid, n), LAMBDA s : NDst(kid, n) + s - 1) ELSE << >>)

(* ------------------------------------------------------------ case space *)
(* tier "q": sizes 0..40, operand counts 0..9, reduced constants;  "t": sizes 0..80, counts 0..20,
   every constant of the field at every size.  A group is <<size, n, pattern, c>>; every group is
   run with each offset vector of AlSeq in both variants (exact heap block / guarded).          *)
MaxSize(tier) == IF tier = "q" THEN 40 ELSE 80
MaxCount(tier) == IF tier = "q" THEN 9 ELSE 20
FieldBits(kid) == IF kid \in {5, 6} THEN 4 ELSE 8
(* constants run over every size and every alignment pair *)
ConstA(tier, kid) == IF FieldBits(kid) = 8 THEN (IF tier = "q" THEN {0, 1, 142} ELSE {0, 1, 2, 142, 255})
                     ELSE (IF tier = "q" THEN {0, 1, 9} ELSE {0, 1, 2, 9, 15})
(* constants run over the size set SizesB (reduced in tier "q", every size in tier "t") with the joint offsets *)
ConstB(tier, kid) == IF FieldBits(kid) = 8 THEN (IF tier = "q" THEN {2, 3, 29, 83, 128, 202, 255} ELSE 0 .. 255)
                     ELSE (IF tier = "q" THEN {2, 7, 15} ELSE 0 .. 15)
SizesB(tier) == IF tier = "q" THEN {0, 1, 15, 16, 17, 33, 40}
                ELSE 0 .. 80

(* "every size from 0 upwards": beyond the dense range, sizes around the powers of two at which an implementation
   may change regime (cache-sized chunks, pages, 16-bit counters), with a few operand counts on both sides of the
   unrolling factors, one pattern, one non-trivial constant and three alignments *)
SizesBig(tier) == IF tier = "q" THEN {255, 256, 257, 1024, 4095, 4096, 4097, 8197}
                  ELSE {127, 128, 129, 255, 256, 257, 1023, 1024, 1025, 2048, 4095, 4096, 4097, 8191, 8192, 8193, 12288, 16385}
CountsBig(tier) == IF tier = "q" THEN {2, 9, 17} ELSE {1, 2, 3, 8, 9, 11, 16, 17}
ConstBig(kid) == IF FieldBits(kid) = 8 THEN 142 ELSE 9
IsBig(tier, sz) == sz > MaxSize(tier)
(* pattern 3 (data with runs of zeros: a kernel that treats zero words specially) at a few sizes of both ranges *)
SizesSparse(tier) == IF tier = "q" THEN {32, 40, 257, 4097} ELSE {31, 32, 33, 40, 48, 64, 80, 129, 257, 1025, 4097}
CountsSparse == {1, 2, 3}

GroupSet(tier, kid) ==
    LET L == MaxSize(tier)  N == MaxCount(tier)
    IN  IF kid = 0 THEN { <<sz, 1, p, 0>> : sz \in 0 .. L, p \in 0 .. 1 } \cup { <<sz, 1, 2, 0>> : sz \in SizesBig(tier) }
                        \cup { <<sz, 1, 3, 0>> : sz \in SizesSparse(tier) }
        ELSE IF kid \in {1, 2} THEN { <<sz, n, p, 0>> : sz \in 0 .. L, n \in 0 .. N, p \in 0 .. 1 }
                                    \cup { <<sz, n, 2, 0>> : sz \in SizesBig(tier), n \in CountsBig(tier) }
                                    \cup { <<sz, n, 3, 0>> : sz \in SizesSparse(tier), n \in CountsSparse }
        ELSE { <<sz, 1, p, c>> : sz \in 0 .. L, p \in 0 .. 1, c \in ConstA(tier, kid) }
             \cup { <<sz, 1, 0, c>> : sz \in SizesB(tier), c \in ConstB(tier, kid) \ ConstA(tier, kid) }
             \cup { <<sz, 1, 2, ConstBig(kid)>> : sz \in SizesBig(tier) }
             \cup { <<sz, 1, 3, ConstBig(kid)>> : sz \in SizesSparse(tier) }

Rank(g) == ((g[1] * 32 + g[2]) * 4 + g[3]) * 256 + g[4]

(* alignment vectors (offset 0..7 of each buffer from an 8-byte boundary), in the order they must be run *)
AlAll(nb) == Tup(8 ^ nb, LAMBDA k : Tup(nb, LAMBDA b : ((k - 1) \div (8 ^ (nb - b))) % 8))
AlUniform(nb) == Tup(8, LAMBDA k : Tup(nb, LAMBDA b : k - 1))
AlStagger(nb) == Tup(8, LAMBDA k : Tup(nb, LAMBDA b : (k - 1 + b - 1) % 8))
AlJoint(nb) == AlUniform(nb) \o AlStagger(nb)
AlBig(nb) == << Tup(nb, LAMBDA b : 0), Tup(nb, LAMBDA b : 1), Tup(nb, LAMBDA b : (5 + b - 1) % 8) >>

(* every operand independently for up to 3 buffers (operand counts <= 2), jointly otherwise;
   the sweep over the constants of ConstB \ ConstA uses the joint vectors (8 uniform + 8 staggered) and,
   in tier "q", pattern 1 uses the 8 uniform vectors only *)
AlSeq(tier, kid, sz, n, p, c) ==
    LET nb == NBuf(kid, n)
    IN  IF IsBig(tier, sz) \/ p = 3 THEN AlBig(nb)
        ELSE IF p = 1 /\ tier = "q" THEN AlUniform(nb)
        ELSE IF kid >= 3 /\ c \notin ConstA(tier, kid) THEN AlJoint(nb)
        ELSE IF nb <= 3 THEN AlAll(nb)
        ELSE AlJoint(nb)
=============================================================================
