------------------------------- MODULE LdpcMl -------------------------------
(***************************************************************************)
(* Implementation-shaped model of of_finish_decoding for the LDPC codec:   *)
(*   of_linear_binary_code_finish_decoding_with_ml  (of_ml_decoding.c)     *)
(*   of_linear_binary_code_solve_dense_system       (of_ml_tool.c)         *)
(* on top of the IT decoder model LdpcIt (same control-block variables).   *)
(*                                                                         *)
(* Steps, as in the C code:                                                *)
(*   0  already complete -> OK                                             *)
(*   1  prepare: recount the per-equation counters from the matrix         *)
(*   2  inject every known source symbol (ESI order), then every known     *)
(*      repair symbol in a permuted order (libc rand() in the code: the    *)
(*      permutation is a parameter of the action, TLC tries several);      *)
(*      injection adds the value to the constant term of each equation of  *)
(*      the column (copy when there is none), deletes the entry and, when  *)
(*      one entry is left, releases that symbol and recurses               *)
(*   3  simplified system: non-empty columns (column order: repair columns *)
(*      first) and non-empty rows; fail if no column or fewer rows than    *)
(*      columns                                                            *)
(*   4  dense system with lazily allocated right-hand sides (NULL = zero)  *)
(*   5  forward elimination column by column (first row at or below the    *)
(*      diagonal with a 1, swap rows and right-hand sides, eliminate       *)
(*      below), backward substitution from the last column                 *)
(*   6  result mapping: the first (r - nb_repair_symbol_ready) variables   *)
(*      are repair symbols, the others go to the NULL entries of the       *)
(*      source table in increasing ESI order                               *)
(* Values are coefficient vectors (sets); NoVal is the NULL pointer.       *)
(***************************************************************************)
EXTENDS LdpcIt

VARIABLES fin        \* "none" | record of the finish call: [st, nulldest, badindex]
mvars == <<pt, tab, M, unk, deg, ct, nrep, led, rcvd, nullderef, fin>>

OK == 0
FAILURE == 1

ColOf(p, esi) == IF esi < p.k THEN esi + p.r ELSE esi - p.k       \* of_get_symbol_col
EsiOf(p, col) == IF col < p.r THEN col + p.k ELSE col - p.r       \* of_get_symbol_esi

(* step 2: of_linear_binary_code_simplify_linear_system_with_a_symbol *)
RECURSIVE Simplify(_, _, _, _)
SimplRow(p, st, row, esi, v) ==
    LET c1   == IF st.ct[row] = NoVal THEN v ELSE SymDiff(st.ct[row], v)
        \* ledger: a missing constant term is malloc'ed and filled with a copy of the symbol
        L1   == IF st.ct[row] = NoVal THEN [LAlloc(st.led, 1000 + row) EXCEPT !.ctid[row] = 1000 + row] ELSE st.led
        st1  == [st EXCEPT !.ct[row] = c1, !.unk[row] = st.unk[row] - 1, !.M = st.M \ { <<row, esi>> }, !.led = L1]
    IN  IF st1.unk[row] = 1
        THEN LET x == CHOOSE y \in RowMembers(st1, row) : TRUE
             IN  IF st1.tab[x] = NoVal
                 THEN LET \* ledger: the released symbol gets the callback's buffer (sources, when one is registered) or a
                          \* malloc'ed one; the constant term is copied into it and freed
                          L2  == IF x < p.k /\ UseCb THEN [st1.led EXCEPT !.bid[x] = -2]
                                 ELSE [LAlloc(st1.led, 2000 + x) EXCEPT !.bid[x] = 2000 + x]
                          L3  == [LFree(L2, L2.ctid[row]) EXCEPT !.ctid[row] = 0]
                          st2 == [st1 EXCEPT !.tab[x] = st1.ct[row], !.ct[row] = NoVal, !.led = L3,
                                             !.unk[row] = st1.unk[row] - 1, !.M = st1.M \ { <<row, x>> }]
                          st3 == Simplify(p, st2, x, st2.tab[x])
                      IN  [st3 EXCEPT !.nrep = IF x >= p.k THEN st3.nrep + 1 ELSE st3.nrep]
                 ELSE st1
        ELSE st1

Simplify(p, st, esi, v) ==
    IF ColRows(st, esi) = {} THEN st
    ELSE IF esi < p.k /\ IsComplete(p, st) THEN st
    ELSE \* rows of the column in increasing order; the column may lose entries during the recursion,
         \* exactly as the C loop re-reads the `down' pointer after each step
         LET RECURSIVE Walk(_, _)
             Walk(s, lastRow) ==
                 LET rest == { rw \in ColRows(s, esi) : rw > lastRow }
                 IN  IF rest = {} THEN s
                     ELSE LET rw == Min(rest) IN Walk(SimplRow(p, s, rw, esi, v), rw)
         IN  Walk(st, -1)

(* ML work areas (canonical block ids): 5000 permutation array, 5001 const_term[], 5002 variable_member[],          *)
(* 5003 column_idx[], 5004 dense matrix, 5005/5006 ofcb->index_rows/index_cols (kept until release), 5007/5008 the   *)
(* local index arrays of create_simplified, 5009 the simplified sparse matrix; 6000 + 100*col + row right-hand sides *)
(* created by the forward elimination (row 0: the zero buffer of a pivot), 7000 + i zero symbols of the backward     *)
(* substitution.                                                                                                     *)
LA(L, id) == IF id \in L.heap THEN L ELSE LAlloc(L, id)       \* "allocate if the pointer is still NULL"
LF(L, id) == IF id > 0 THEN LFree(L, id) ELSE L               \* "free if not NULL"
Prepare(p, st) ==
    [st EXCEPT !.unk = [ row \in Rows(p) |-> Cardinality(RowMembers(st, row)) ],
               !.deg = [ row \in Rows(p) |-> Cardinality(RowMembers(st, row)) ],
               !.led = LA(LA(st.led, 5005), 5006)]

InjectAll(p, st, perm) ==
    LET srcs == SetToSortSeq({ i \in Src(p) : st.tab[i] # NoVal }, LAMBDA a, b : a < b)
        s1   == FoldLeft(LAMBDA s, e : Simplify(p, s, e, s.tab[e]), st, srcs)
        \* repairs: positions 1..r of the permutation; only those known *when their turn comes*
        s2   == [s1 EXCEPT !.led = LAlloc(s1.led, 5000)]
        s3   == FoldLeft(LAMBDA s, j : IF s.tab[p.k + j] # NoVal THEN Simplify(p, s, p.k + j, s.tab[p.k + j]) ELSE s, s2, perm)
    IN  [s3 EXCEPT !.led = LFree(s3.led, 5000)]

(* steps 4-5 on sequences: A = sequence of rows (sets of column positions 1..q), b = right-hand sides *)
Swap(sq, i, j) == [ x \in DOMAIN sq |-> IF x = i THEN sq[j] ELSE IF x = j THEN sq[i] ELSE sq[x] ]

(* right-hand-side blocks of the rows below the pivot of column i, in the order of the C loop: acc = [id, L, pivnull] *)
ElimIds(acc, i, x) ==
    IF ~acc.pivnull
    THEN IF acc.id[x] = 0 THEN [acc EXCEPT !.L = LAlloc(acc.L, 6000 + 100 * i + x), !.id[x] = 6000 + 100 * i + x]   \* malloc + memcpy
         ELSE acc                                                                                                \* XOR in place
    ELSE [acc EXCEPT !.L = LAlloc(acc.L, 6000 + 100 * i), !.id[i] = 6000 + 100 * i, !.pivnull = FALSE]           \* calloc for the pivot row

ElimCol(sys, i) ==          \* sys = [A, b, ok, piv, failcol, id, L]
    IF ~sys.ok THEN sys
    ELSE LET cand == { j \in i .. Len(sys.A) : i \in sys.A[j] }
         IN  IF cand = {} THEN [sys EXCEPT !.ok = FALSE, !.failcol = i]
             ELSE LET j  == Min(cand)
                      A1 == Swap(sys.A, i, j)
                      b1 == Swap(sys.b, i, j)
                      id1 == Swap(sys.id, i, j)
                      below == { x \in (i + 1) .. Len(A1) : i \in A1[x] }
                      ids == FoldLeft(LAMBDA acc, x : ElimIds(acc, i, x), [id |-> id1, L |-> sys.L, pivnull |-> id1[i] = 0],
                                      SetToSortSeq(below, LAMBDA a, c : a < c))
                      A2 == [ x \in DOMAIN A1 |-> IF x \in below THEN SymDiff(A1[x], A1[i]) ELSE A1[x] ]
                      \* right-hand sides: NULL pivot term becomes a zero buffer when something lies below it
                      bi == IF b1[i] = NoVal /\ below # {} THEN {} ELSE b1[i]
                      b2 == [ x \in DOMAIN b1 |->
                                IF x = i THEN bi
                                ELSE IF x \in below /\ b1[i] # NoVal
                                     THEN (IF b1[x] = NoVal THEN b1[i] ELSE SymDiff(b1[x], b1[i]))
                                     ELSE b1[x] ]
                  IN  [A |-> A2, b |-> b2, ok |-> TRUE, piv |-> Append(sys.piv, j), failcol |-> 0, id |-> ids.id, L |-> ids.L]

BackSub(sys, q) ==          \* returns [x : 1..q -> value, nulldest : BOOLEAN]
    LET step(acc, i) ==     \* i runs q .. 1
            LET others == { j \in (i + 1) .. q : j \in sys.A[i] }
                base   == sys.b[i]
                dest0  == IF base = NoVal THEN {} ELSE base
                val    == XorSeq(<<dest0>> \o [ t \in 1 .. Cardinality(others) |-> acc.x[SetToSeq(others)[t]] ])
            \* since fix 4d3dc82 a NULL constant term is replaced by a calloc'ed null symbol before it is
            \* used as destination, so no NULL destination can occur; `nulldest' stays as a guard field
            IN  [ x |-> [acc.x EXCEPT ![i] = val],
                  nulldest |-> acc.nulldest ]
    IN  FoldLeft(step, [x |-> [ i \in 1 .. q |-> {} ], nulldest |-> FALSE], [ t \in 1 .. q |-> q + 1 - t ])

FreeAll(L, ids) == FoldLeft(LAMBDA acc, id : LF(acc, id), L, ids)

FinishRec(p, st0, perm) ==
    IF IsComplete(p, st0) THEN [st |-> st0, status |-> OK, nulldest |-> FALSE, badindex |-> FALSE, stage |-> "already", piv |-> <<>>, dims |-> <<0, 0>>]
    ELSE
    LET st1  == InjectAll(p, Prepare(p, st0), perm)
        cols == SetToSortSeq({ c \in 0 .. (N(p) - 1) : ColRows(st1, EsiOf(p, c)) # {} }, LAMBDA a, b : a < b)
        rows == SetToSortSeq({ rw \in Rows(p) : RowMembers(st1, rw) # {} }, LAMBDA a, b : a < b)
        q    == Len(cols)
        \* create_simplified_linear_system: two local index arrays; on failure they and ofcb->index_rows/cols are freed
        Lfail == LFree(LFree(st1.led, 5005), 5006)
        stF  == [st1 EXCEPT !.led = Lfail]
    IN  IF q = 0 THEN [st |-> stF, status |-> FAILURE, nulldest |-> FALSE, badindex |-> FALSE, stage |-> "empty", piv |-> <<>>, dims |-> <<Len(rows), 0>>]
        ELSE IF Len(rows) < q THEN [st |-> stF, status |-> FAILURE, nulldest |-> FALSE, badindex |-> FALSE, stage |-> "fewrows", piv |-> <<>>, dims |-> <<Len(rows), q>>]
        ELSE
        LET colpos(esi) == CHOOSE j \in 1 .. q : cols[j] = ColOf(p, esi)
            A0   == [ i \in 1 .. Len(rows) |-> { colpos(e) : e \in RowMembers(st1, rows[i]) } ]
            b0   == [ i \in 1 .. Len(rows) |-> st1.ct[rows[i]] ]
            \* dense matrix, column_idx, const_term[] (the constant terms of the system's rows move into it), variable_member[]
            id0  == [ i \in 1 .. Len(rows) |-> st1.led.ctid[rows[i]] ]
            L0   == LAlloc(LAlloc(LAlloc(LAlloc(st1.led, 5004), 5003), 5001), 5002)
            L0m  == [L0 EXCEPT !.ctid = [ rw \in Rows(p) |-> IF RowMembers(st1, rw) # {} THEN 0 ELSE L0.ctid[rw] ]]
            sys  == FoldLeft(ElimCol, [A |-> A0, b |-> b0, ok |-> TRUE, piv |-> <<>>, failcol |-> 0, id |-> id0, L |-> L0m], [ i \in 1 .. q |-> i ])
            arrays == <<5001, 5002, 5003, 5004>>
        IN  IF ~sys.ok
            THEN \* failure label: every non-NULL const_term[i] is freed, then the arrays and the dense matrix
                 LET Lx == FreeAll(FreeAll(sys.L, sys.id), arrays)
                 IN  [st |-> [st1 EXCEPT !.ct = [ rw \in Rows(p) |-> IF RowMembers(st1, rw) # {} THEN NoVal ELSE st1.ct[rw] ], !.led = Lx],
                      status |-> FAILURE, nulldest |-> FALSE, badindex |-> FALSE, stage |-> "singular", piv |-> Append(sys.piv, -sys.failcol), dims |-> <<Len(rows), q>>]
            ELSE
            LET sol    == BackSub(sys, q)
                nrepml == p.r - st1.nrep                      \* "number of repair found in ML"
                holes  == SetToSortSeq({ i \in Src(p) : st1.tab[i] = NoVal }, LAMBDA a, b : a < b)
                bad    == nrepml + Len(holes) > q \/ nrepml < 0
                tab2   == [ e \in 0 .. (N(p) - 1) |->
                              IF e \in Src(p) /\ st1.tab[e] = NoVal /\ ~bad
                              THEN sol.x[nrepml + (CHOOSE t \in DOMAIN holes : holes[t] = e)]
                              ELSE st1.tab[e] ]
                \* ledger of the backward substitution: variable i takes over const_term[i] (a zero symbol is calloc'ed for NULL)
                vid    == [ i \in 1 .. q |-> IF sys.id[i] # 0 THEN sys.id[i] ELSE 7000 + i ]
                Lb     == FoldLeft(LAMBDA acc, i : IF sys.id[i] = 0 THEN LAlloc(acc, 7000 + i) ELSE acc, sys.L, [ i \in 1 .. q |-> i ])
                restid == [ i \in 1 .. Len(rows) |-> IF i <= q THEN 0 ELSE sys.id[i] ]
                \* result mapping: repair variables freed; each missing source takes the next variable (copied into the
                \* callback's buffer and freed when a callback is registered); the variables left over are freed
                hpos(e) == nrepml + (CHOOSE t \in DOMAIN holes : holes[t] = e)
                Lr1    == FreeAll(Lb, [ j \in 1 .. (IF bad THEN 0 ELSE nrepml) |-> vid[j] ])
                Lr2    == IF bad THEN Lr1
                          ELSE FoldLeft(LAMBDA acc, e : IF UseCb THEN [LFree(acc, vid[hpos(e)]) EXCEPT !.bid[e] = -2]
                                                        ELSE [acc EXCEPT !.bid[e] = vid[hpos(e)]], Lr1, holes)
                Lr3    == IF bad THEN Lr2 ELSE FreeAll(Lr2, [ j \in 1 .. (q - nrepml - Len(holes)) |-> vid[nrepml + Len(holes) + j] ])
                Lend   == FreeAll(FreeAll(Lr3, restid), arrays)
            IN  [ st |-> [st1 EXCEPT !.tab = tab2, !.M = {}, !.led = Lend,
                                     !.ct = [ rw \in Rows(p) |-> IF RowMembers(st1, rw) # {} THEN NoVal ELSE st1.ct[rw] ]],
                  status |-> OK, nulldest |-> sol.nulldest, badindex |-> bad, stage |-> "ge", piv |-> sys.piv, dims |-> <<Len(rows), q>> ]

Perms(p) ==   \* a few permutations of 0..r-1 as sequences: identity, reverse, rotation, interleaved
    LET r == p.r
        id  == [ j \in 1 .. r |-> j - 1 ]
        rev == [ j \in 1 .. r |-> r - j ]
        rot == [ j \in 1 .. r |-> (j + 1) % r ]
        alt == [ j \in 1 .. r |-> IF j % 2 = 1 THEN (j - 1) \div 2 ELSE r - (j \div 2) ]
    IN  {id, rev, rot, alt}

NoFin == [st |-> -1, nulldest |-> FALSE, badindex |-> FALSE, stage |-> "none"]
MInit == Init /\ fin = NoFin

MRecv(e) == fin = NoFin /\ Recv(e) /\ UNCHANGED fin

MFinish(perm) ==
    /\ fin = NoFin
    /\ LET f == FinishRec(pt, StateRec, perm)
       IN  /\ tab' = f.st.tab /\ M' = f.st.M /\ unk' = f.st.unk /\ deg' = f.st.deg /\ ct' = f.st.ct /\ nrep' = f.st.nrep /\ led' = f.st.led
           /\ nullderef' = f.st.bad
           /\ fin' = [st |-> f.status, nulldest |-> f.nulldest, badindex |-> f.badindex, stage |-> f.stage]
    /\ UNCHANGED <<pt, rcvd>>

MNext == (\E e \in 0 .. (N(pt) - 1) : MRecv(e)) \/ (\E perm \in Perms(pt) : MFinish(perm))

MSpec == MInit /\ [][MNext]_mvars

-----------------------------------------------------------------------------
Finished == fin.stage # "none"
ItBeforeFinish == ~Finished => (ItIsPeeling /\ Sound)
Determined == SourceDetermined(HOf(pt), pt.k, rcvd \cup PreKnown)

(* C03: finish completes exactly when the received set determines every source symbol *)
MlComplete == Finished => (Complete <=> Determined)
(* C10: status tells the truth *)
MlStatus == Finished => ((fin.st = OK) <=> Complete) /\ ((fin.st = FAILURE) <=> ~Complete)
(* C01 after finish *)
MlSound == \A i \in Src(pt) : tab[i] # NoVal => tab[i] = CwTab[pt][i]
(* no NULL destination of an XOR, result mapping stays inside the variable table *)
MlNoNullDest == Finished => ~fin.nulldest
MlIndexInRange == Finished => ~fin.badindex
(* C08, model side: after of_finish_decoding returns, whatever its outcome, the heap holds exactly the constant terms  *)
(* still attached to equations, the buffers of the known symbols and the two index arrays kept for release (no work   *)
(* area, no right-hand side created by the elimination, no solved variable is left behind or freed twice); everything *)
(* of_release_codec_instance does not free is a source symbol buffer, which the API leaves to the application.        *)
MlLedgerOK ==
    LET cts  == { led.ctid[row] : row \in { r2 \in Rows(pt) : led.ctid[r2] > 0 } }
        bufs == { led.bid[e] : e \in { e2 \in 0 .. (N(pt) - 1) : led.bid[e2] > 0 } }
    IN  Finished => /\ ~led.bad
                    /\ led.heap \ {5005, 5006} = cts \cup bufs
                    /\ Cardinality(cts) + Cardinality(bufs) = Cardinality(cts \cup bufs)
                    /\ \A row \in Rows(pt) : (ct[row] # NoVal) <=> (led.ctid[row] > 0)
                    /\ \A e \in 0 .. (N(pt) - 1) : (tab[e] # NoVal) <=> (led.bid[e] # 0)
MlNoLeakAtRelease ==
    Finished => (led.heap \ ({5005, 5006} \cup { led.ctid[row] : row \in Rows(pt) } \cup { led.bid[e] : e \in pt.k .. (N(pt) - 1) }))
                    \subseteq { led.bid[i] : i \in Src(pt) }
(* the definitional lemma used by the API specification: for staircase systems "determined" *)
(* coincides with full column rank of the unknown columns after peeling                     *)
RankLemma == Determined <=> FullColumnRank(HOf(pt), PeelClosure(HOf(pt), rcvd \cup PreKnown))
=============================================================================
