------------------------------- MODULE LdpcMl -------------------------------
(***************************************************************************)
(* Implementation-shaped model of of_finish_decoding for the LDPC codec:   *)
(*   of_linear_binary_code_finish_decoding_with_ml  (of_ml_decoding.c)     *)
(*   of_linear_binary_code_solve_dense_system       (of_ml_tool.c)         *)
(* on top of the IT decoder model LdpcIt (same control-block variables).   *)
(*                                                                         *)
(* Steps, as in the C code:                                                *)
(*   0  already complete -> OK                                             *)
(*   1  prepare: recount the per-equation counters from the matrix         *)
(*   2  inject every known source symbol (ESI order), then every known     *)
(*      repair symbol in a permuted order (libc rand() in the code: the    *)
(*      permutation is a parameter of the action, TLC tries several);      *)
(*      injection adds the value to the constant term of each equation of  *)
(*      the column (copy when there is none), deletes the entry and, when  *)
(*      one entry is left, releases that symbol and recurses               *)
(*   3  simplified system: non-empty columns (column order: repair columns *)
(*      first) and non-empty rows; fail if no column or fewer rows than    *)
(*      columns                                                            *)
(*   4  dense system with lazily allocated right-hand sides (NULL = zero)  *)
(*   5  forward elimination column by column (first row at or below the    *)
(*      diagonal with a 1, swap rows and right-hand sides, eliminate       *)
(*      below), backward substitution from the last column                 *)
(*   6  result mapping: the first (r - nb_repair_symbol_ready) variables   *)
(*      are repair symbols, the others go to the NULL entries of the       *)
(*      source table in increasing ESI order                               *)
(* Values are coefficient vectors (sets); NoVal is the NULL pointer.       *)
(***************************************************************************)
EXTENDS LdpcIt

VARIABLES fin        \* "none" | record of the finish call: [st, nulldest, badindex]
mvars == <<pt, tab, M, unk, deg, ct, nrep, led, rcvd, nullderef, fin>>

OK == 0
FAILURE == 1

ColOf(p, esi) == IF esi < p.k THEN esi + p.r ELSE esi - p.k       \* of_get_symbol_col
EsiOf(p, col) == IF col < p.r THEN col + p.k ELSE col - p.r       \* of_get_symbol_esi

(* step 2: of_linear_binary_code_simplify_linear_system_with_a_symbol *)
RECURSIVE Simplify(_, _, _, _)
SimplRow(p, st, row, esi, v) ==
    LET c1   == IF st.ct[row] = NoVal THEN v ELSE SymDiff(st.ct[row], v)
        st1  == [st EXCEPT !.ct[row] = c1, !.unk[row] = st.unk[row] - 1, !.M = st.M \ { <<row, esi>> }]
    IN  IF st1.unk[row] = 1
        THEN LET x == CHOOSE y \in RowMembers(st1, row) : TRUE
             IN  IF st1.tab[x] = NoVal
                 THEN LET st2 == [st1 EXCEPT !.tab[x] = st1.ct[row], !.ct[row] = NoVal,
                                             !.unk[row] = st1.unk[row] - 1, !.M = st1.M \ { <<row, x>> }]
                          st3 == Simplify(p, st2, x, st2.tab[x])
                      IN  [st3 EXCEPT !.nrep = IF x >= p.k THEN st3.nrep + 1 ELSE st3.nrep]
                 ELSE st1
        ELSE st1

Simplify(p, st, esi, v) ==
    IF ColRows(st, esi) = {} THEN st
    ELSE IF esi < p.k /\ IsComplete(p, st) THEN st
    ELSE \* rows of the column in increasing order; the column may lose entries during the recursion,
         \* exactly as the C loop re-reads the `down' pointer after each step
         LET RECURSIVE Walk(_, _)
             Walk(s, lastRow) ==
                 LET rest == { rw \in ColRows(s, esi) : rw > lastRow }
                 IN  IF rest = {} THEN s
                     ELSE LET rw == Min(rest) IN Walk(SimplRow(p, s, rw, esi, v), rw)
         IN  Walk(st, -1)

Prepare(p, st) ==
    [st EXCEPT !.unk = [ row \in Rows(p) |-> Cardinality(RowMembers(st, row)) ],
               !.deg = [ row \in Rows(p) |-> Cardinality(RowMembers(st, row)) ]]

InjectAll(p, st, perm) ==
    LET srcs == SetToSortSeq({ i \in Src(p) : st.tab[i] # NoVal }, LAMBDA a, b : a < b)
        s1   == FoldLeft(LAMBDA s, e : Simplify(p, s, e, s.tab[e]), st, srcs)
        \* repairs: positions 1..r of the permutation; only those known *when their turn comes*
    IN  FoldLeft(LAMBDA s, j : IF s.tab[p.k + j] # NoVal THEN Simplify(p, s, p.k + j, s.tab[p.k + j]) ELSE s, s1, perm)

(* steps 4-5 on sequences: A = sequence of rows (sets of column positions 1..q), b = right-hand sides *)
Swap(sq, i, j) == [ x \in DOMAIN sq |-> IF x = i THEN sq[j] ELSE IF x = j THEN sq[i] ELSE sq[x] ]

ElimCol(sys, i) ==          \* sys = [A, b, ok]
    IF ~sys.ok THEN sys
    ELSE LET cand == { j \in i .. Len(sys.A) : i \in sys.A[j] }
         IN  IF cand = {} THEN [sys EXCEPT !.ok = FALSE, !.failcol = i]
             ELSE LET j  == Min(cand)
                      A1 == Swap(sys.A, i, j)
                      b1 == Swap(sys.b, i, j)
                      below == { x \in (i + 1) .. Len(A1) : i \in A1[x] }
                      A2 == [ x \in DOMAIN A1 |-> IF x \in below THEN SymDiff(A1[x], A1[i]) ELSE A1[x] ]
                      \* right-hand sides: NULL pivot term becomes a zero buffer when something lies below it
                      bi == IF b1[i] = NoVal /\ below # {} THEN {} ELSE b1[i]
                      b2 == [ x \in DOMAIN b1 |->
                                IF x = i THEN bi
                                ELSE IF x \in below /\ b1[i] # NoVal
                                     THEN (IF b1[x] = NoVal THEN b1[i] ELSE SymDiff(b1[x], b1[i]))
                                     ELSE b1[x] ]
                  IN  [A |-> A2, b |-> b2, ok |-> TRUE, piv |-> Append(sys.piv, j), failcol |-> 0]

BackSub(sys, q) ==          \* returns [x : 1..q -> value, nulldest : BOOLEAN]
    LET step(acc, i) ==     \* i runs q .. 1
            LET others == { j \in (i + 1) .. q : j \in sys.A[i] }
                base   == sys.b[i]
                dest0  == IF base = NoVal THEN {} ELSE base
                val    == XorSeq(<<dest0>> \o [ t \in 1 .. Cardinality(others) |-> acc.x[SetToSeq(others)[t]] ])
            \* since fix 4d3dc82 a NULL constant term is replaced by a calloc'ed null symbol before it is
            \* used as destination, so no NULL destination can occur; `nulldest' stays as a guard field
            IN  [ x |-> [acc.x EXCEPT ![i] = val],
                  nulldest |-> acc.nulldest ]
    IN  FoldLeft(step, [x |-> [ i \in 1 .. q |-> {} ], nulldest |-> FALSE], [ t \in 1 .. q |-> q + 1 - t ])

FinishRec(p, st0, perm) ==
    IF IsComplete(p, st0) THEN [st |-> st0, status |-> OK, nulldest |-> FALSE, badindex |-> FALSE, stage |-> "already", piv |-> <<>>, dims |-> <<0, 0>>]
    ELSE
    LET st1  == InjectAll(p, Prepare(p, st0), perm)
        cols == SetToSortSeq({ c \in 0 .. (N(p) - 1) : ColRows(st1, EsiOf(p, c)) # {} }, LAMBDA a, b : a < b)
        rows == SetToSortSeq({ rw \in Rows(p) : RowMembers(st1, rw) # {} }, LAMBDA a, b : a < b)
        q    == Len(cols)
    IN  IF q = 0 THEN [st |-> st1, status |-> FAILURE, nulldest |-> FALSE, badindex |-> FALSE, stage |-> "empty", piv |-> <<>>, dims |-> <<Len(rows), 0>>]
        ELSE IF Len(rows) < q THEN [st |-> st1, status |-> FAILURE, nulldest |-> FALSE, badindex |-> FALSE, stage |-> "fewrows", piv |-> <<>>, dims |-> <<Len(rows), q>>]
        ELSE
        LET colpos(esi) == CHOOSE j \in 1 .. q : cols[j] = ColOf(p, esi)
            A0   == [ i \in 1 .. Len(rows) |-> { colpos(e) : e \in RowMembers(st1, rows[i]) } ]
            b0   == [ i \in 1 .. Len(rows) |-> st1.ct[rows[i]] ]
            sys  == FoldLeft(ElimCol, [A |-> A0, b |-> b0, ok |-> TRUE, piv |-> <<>>, failcol |-> 0], [ i \in 1 .. q |-> i ])
        IN  IF ~sys.ok THEN [st |-> [st1 EXCEPT !.ct = [ rw \in Rows(p) |-> IF RowMembers(st1, rw) # {} THEN NoVal ELSE st1.ct[rw] ]],
                             status |-> FAILURE, nulldest |-> FALSE, badindex |-> FALSE, stage |-> "singular", piv |-> Append(sys.piv, -sys.failcol), dims |-> <<Len(rows), q>>]
            ELSE
            LET sol    == BackSub(sys, q)
                nrepml == p.r - st1.nrep                      \* "number of repair found in ML"
                holes  == SetToSortSeq({ i \in Src(p) : st1.tab[i] = NoVal }, LAMBDA a, b : a < b)
                bad    == nrepml + Len(holes) > q \/ nrepml < 0
                tab2   == [ e \in 0 .. (N(p) - 1) |->
                              IF e \in Src(p) /\ st1.tab[e] = NoVal /\ ~bad
                              THEN sol.x[nrepml + (CHOOSE t \in DOMAIN holes : holes[t] = e)]
                              ELSE st1.tab[e] ]
            IN  [ st |-> [st1 EXCEPT !.tab = tab2, !.M = {}], status |-> OK, nulldest |-> sol.nulldest, badindex |-> bad, stage |-> "ge", piv |-> sys.piv, dims |-> <<Len(rows), q>> ]

Perms(p) ==   \* a few permutations of 0..r-1 as sequences: identity, reverse, rotation, interleaved
    LET r == p.r
        id  == [ j \in 1 .. r |-> j - 1 ]
        rev == [ j \in 1 .. r |-> r - j ]
        rot == [ j \in 1 .. r |-> (j + 1) % r ]
        alt == [ j \in 1 .. r |-> IF j % 2 = 1 THEN (j - 1) \div 2 ELSE r - (j \div 2) ]
    IN  {id, rev, rot, alt}

NoFin == [st |-> -1, nulldest |-> FALSE, badindex |-> FALSE, stage |-> "none"]
MInit == Init /\ fin = NoFin

MRecv(e) == fin = NoFin /\ Recv(e) /\ UNCHANGED fin

MFinish(perm) ==
    /\ fin = NoFin
    /\ LET f == FinishRec(pt, StateRec, perm)
       IN  /\ tab' = f.st.tab /\ M' = f.st.M /\ unk' = f.st.unk /\ deg' = f.st.deg /\ ct' = f.st.ct /\ nrep' = f.st.nrep /\ led' = f.st.led
           /\ nullderef' = f.st.bad
           /\ fin' = [st |-> f.status, nulldest |-> f.nulldest, badindex |-> f.badindex, stage |-> f.stage]
    /\ UNCHANGED <<pt, rcvd>>

MNext == (\E e \in 0 .. (N(pt) - 1) : MRecv(e)) \/ (\E perm \in Perms(pt) : MFinish(perm))

MSpec == MInit /\ [][MNext]_mvars

-----------------------------------------------------------------------------
Finished == fin.stage # "none"
ItBeforeFinish == ~Finished => (ItIsPeeling /\ Sound)
Determined == SourceDetermined(HOf(pt), pt.k, rcvd \cup PreKnown)

(* C03: finish completes exactly when the received set determines every source symbol *)
MlComplete == Finished => (Complete <=> Determined)
(* C10: status tells the truth *)
MlStatus == Finished => ((fin.st = OK) <=> Complete) /\ ((fin.st = FAILURE) <=> ~Complete)
(* C01 after finish *)
MlSound == \A i \in Src(pt) : tab[i] # NoVal => tab[i] = CwTab[pt][i]
(* no NULL destination of an XOR, result mapping stays inside the variable table *)
MlNoNullDest == Finished => ~fin.nulldest
MlIndexInRange == Finished => ~fin.badindex
(* the definitional lemma used by the API specification: for staircase systems "determined" *)
(* coincides with full column rank of the unknown columns after peeling                     *)
RankLemma == Determined <=> FullColumnRank(HOf(pt), PeelClosure(HOf(pt), rcvd \cup PreKnown))
=============================================================================
