SPECIFICATION TraceSpec
CONSTANTS
  WordSize = 32
  Dims <- DimsNone
  NDense = 4
  MaxP = 0
CHECK_DEADLOCK FALSE
POSTCONDITION TraceConsumed
