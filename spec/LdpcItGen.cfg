SPECIFICATION GSpec
CONSTANT UseCb = FALSE
CONSTANT Points <- PointsThorough
CHECK_DEADLOCK FALSE
