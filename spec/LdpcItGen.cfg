SPECIFICATION GSpec
CONSTANT Points <- PointsThorough
CHECK_DEADLOCK FALSE
