----------------------------- MODULE PchkModel -----------------------------
(***************************************************************************)
(* Exhaustive check, over a grid of small parameter points, of structural  *)
(* facts of the RFC 5170 construction (module PchkRfc5170) that the listed *)
(* properties rely on:                                                     *)
(*   - staircase: repair i occurs exactly in rows i and i+1                *)
(*   - every source column has at least N1 entries, exactly N1 when no     *)
(*     completion entry was added                                          *)
(*   - every row has at least two source entries when k > 1                *)
(*   - LastNull lemma (C15): N1 even and no completion entry  =>  the sum  *)
(*     of all equations is {n-1}, i.e. the last repair symbol is zero on   *)
(*     every codeword; and conversely the claim rule never holds when it   *)
(*     is not                                                              *)
(*   - the systematic form is an encoder: peeling from the k sources       *)
(*     releases every repair symbol (C06 well-definedness)                 *)
(***************************************************************************)
EXTENDS Naturals, Integers, Sequences, FiniteSets, TLC, SequencesExt, FiniteSetsExt, GF2, PchkRfc5170

CONSTANTS MaxK, MaxR, Seeds

VARIABLE pt
Points == { p \in [k : 1 .. MaxK, r : 3 .. MaxR, N1 : 3 .. 6, seed : Seeds] : p.N1 <= p.r }

Init == pt \in Points
Next == UNCHANGED pt

Code(p) == Rfc5170(p.k, p.r, p.N1, p.seed)
ColWeight(H, e) == Cardinality({ i \in DOMAIN H : e \in H[i] })

Staircase ==
    LET c == Code(pt) IN
    \A i \in 0 .. (pt.r - 1) :
        { x \in DOMAIN c.H : (pt.k + i) \in c.H[x] } = (IF i < pt.r - 1 THEN {i + 1, i + 2} ELSE {i + 1})

ColumnWeights ==
    LET c == Code(pt) IN
    \A j \in 0 .. (pt.k - 1) : ColWeight(c.H, j) >= pt.N1 /\ (~c.extra => ColWeight(c.H, j) = pt.N1)

RowDegrees ==
    LET c == Code(pt) IN
    \A x \in DOMAIN c.H : Cardinality(c.H[x] \cap (0 .. (pt.k - 1))) >= (IF pt.k > 1 THEN 2 ELSE 1)

ClaimRule(p, c) == (p.N1 % 2 = 0) /\ ~c.extra

LastNullLemma ==
    LET c == Code(pt) IN ClaimRule(pt, c) => SumOfRows(c.H) = {pt.k + pt.r - 1}

EncoderDefined ==
    LET c == Code(pt) IN PeelClosure(c.H, 0 .. (pt.k - 1)) = 0 .. (pt.k + pt.r - 1)
=============================================================================
