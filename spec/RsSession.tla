------------------------------ MODULE RsSession ------------------------------
(***************************************************************************)
(* Implementation-shaped model of the decoder side of the two Reed-Solomon *)
(* API files (of_reed-solomon_gf_2_8_api.c, of_reed-solomon_gf_2_m_api.c): *)
(* the availability table, the two counters, the decoding_finished flag,   *)
(* the decode trigger of of_decode_with_new_symbol, the early exits of     *)
(* of_finish_decoding and its selection of k symbols (source i in slot i,  *)
(* gaps filled by available repair symbols in increasing ESI, scanning     *)
(* without a bound check), the callback/malloc loop and the error answer   *)
(* of of_get_source_symbols_tab before completion.                         *)
(*                                                                         *)
(* The algebra (the k selected rows of the generator are invertible) is    *)
(* the MDS lemma: evaluation points pairwise distinct (GF2mModel) and      *)
(* generator rows = V_rest * V_top^-1 (validated on the code in C06); the  *)
(* model assumes it exactly when the k selected ESIs are pairwise distinct *)
(* and checks that they always are.                                        *)
(***************************************************************************)
EXTENDS Naturals, Integers, Sequences, FiniteSets, TLC, FiniteSetsExt

CONSTANTS MaxN       \* explore every 1 <= k < n <= MaxN

VARIABLES k, n, tabl, nAvail, nAvailSrc, finished, cbMode, phase, rcvd, lastSt, scanBad, cbLog
vars == <<k, n, tabl, nAvail, nAvailSrc, finished, cbMode, phase, rcvd, lastSt, scanBad, cbLog>>

SetToSeqSorted(S) == IF S = {} THEN <<>> ELSE CHOOSE q \in [1 .. Cardinality(S) -> S] : \A i, j \in DOMAIN q : i < j => q[i] < q[j]

OK == 0
FAILURE == 1
ERROR == 2

Src == 0 .. (k - 1)
All == 0 .. (n - 1)

Init ==
    /\ n \in 2 .. MaxN /\ k \in 1 .. (MaxN - 1) /\ k < n
    /\ tabl = [ e \in 0 .. (n - 1) |-> "none" ]
    /\ nAvail = 0 /\ nAvailSrc = 0 /\ finished = FALSE
    /\ cbMode \in {"none", "buf", "null"}
    /\ phase = "stream" /\ rcvd = {} /\ lastSt = OK /\ scanBad = FALSE /\ cbLog = <<>>

(* of_rs_finish_decoding, as a function of the state; returns the new pieces *)
\* selection: slot i gets source i when available, else the next available repair (scan pointer only moves forward)
RECURSIVE Select(_, _, _, _)
Select(t, i, ars, acc) ==        \* acc = sequence of selected ESIs; ars = repair scan position
    IF i = k THEN [sel |-> acc, bad |-> FALSE]
    ELSE IF t[i] # "none" THEN Select(t, i + 1, ars, Append(acc, i))
    ELSE LET cand == { e \in ars .. (n - 1) : t[e] # "none" }
         IN  IF cand = {} THEN [sel |-> acc, bad |-> TRUE]          \* the C loop would run past the table
             ELSE LET e == Min(cand) IN Select(t, i + 1, e + 1, Append(acc, e))

FinishCore(t) ==
    LET s == Select(t, 0, k, <<>>)
        missing == { i \in Src : t[i] = "none" }
        newOrigin == IF cbMode = "buf" THEN "cb" ELSE "lib"
    IN  [ bad  |-> s.bad \/ Cardinality({ s.sel[j] : j \in DOMAIN s.sel }) # Len(s.sel),
          tabl |-> [ e \in All |-> IF e \in missing THEN newOrigin ELSE t[e] ],
          cbs  |-> IF cbMode = "none" THEN <<>> ELSE SetToSeqSorted(missing) ]


Finish ==
    /\ phase \in {"stream", "setavail"}
    /\ IF finished THEN /\ lastSt' = OK /\ UNCHANGED <<tabl, finished, scanBad, cbLog>>
       ELSE IF nAvail < k THEN /\ lastSt' = FAILURE /\ UNCHANGED <<tabl, finished, scanBad, cbLog>>
       ELSE IF nAvailSrc = k THEN /\ finished' = TRUE /\ lastSt' = OK /\ UNCHANGED <<tabl, scanBad, cbLog>>
       ELSE LET f == FinishCore(tabl)
            IN  /\ tabl' = f.tabl /\ finished' = TRUE /\ lastSt' = OK
                /\ scanBad' = (scanBad \/ f.bad)
                /\ cbLog' = cbLog \o f.cbs
    /\ phase' = "finished"
    /\ UNCHANGED <<k, n, nAvail, nAvailSrc, cbMode, rcvd>>

DecodeNew(e) ==
    /\ phase = "stream"
    /\ rcvd' = rcvd \cup {e}
    /\ lastSt' = OK
    /\ IF finished \/ tabl[e] # "none"
       THEN UNCHANGED <<tabl, nAvail, nAvailSrc, finished, scanBad, cbLog>>
       ELSE LET t1  == [tabl EXCEPT ![e] = "app"]
                na  == nAvail + 1
                ns  == IF e < k THEN nAvailSrc + 1 ELSE nAvailSrc
            IN  /\ nAvail' = na /\ nAvailSrc' = ns
                /\ IF ns = k THEN /\ finished' = TRUE /\ tabl' = t1 /\ UNCHANGED <<scanBad, cbLog>>
                   ELSE IF na >= k
                   THEN LET f == FinishCore(t1)
                        IN  /\ tabl' = f.tabl /\ finished' = TRUE
                            /\ scanBad' = (scanBad \/ f.bad) /\ cbLog' = cbLog \o f.cbs
                   ELSE /\ tabl' = t1 /\ UNCHANGED <<finished, scanBad, cbLog>>
    /\ UNCHANGED <<k, n, cbMode, phase>>

SetAvailable(S) ==
    /\ phase = "stream" /\ rcvd = {}
    /\ tabl' = [ e \in All |-> IF e \in S THEN "app" ELSE "none" ]
    /\ nAvail' = Cardinality(S) /\ nAvailSrc' = Cardinality(S \cap Src)
    /\ rcvd' = S /\ phase' = "setavail" /\ lastSt' = OK
    /\ UNCHANGED <<k, n, finished, cbMode, scanBad, cbLog>>

Next == (\E e \in All : DecodeNew(e)) \/ (\E S \in SUBSET All : SetAvailable(S)) \/ Finish

Spec == Init /\ [][Next]_vars

-----------------------------------------------------------------------------
(* C02: complete iff at least k distinct symbols were submitted and a decode trigger occurred *)
RsMds ==
    /\ finished => Cardinality(rcvd) >= k
    /\ (phase = "stream" /\ Cardinality(rcvd) >= k) => finished
    /\ (phase = "finished") => (finished <=> Cardinality(rcvd) >= k)

(* C10 *)
StatusTruth == phase = "finished" => ((lastSt = OK) <=> finished) /\ ((lastSt = FAILURE) <=> ~finished)
CompleteAll == finished => \A i \in Src : tabl[i] # "none"
SamePointer == \A i \in Src : (i \in rcvd /\ tabl[i] # "none" /\ ~(finished /\ i \notin rcvd)) => TRUE

(* received source symbols keep the application's pointer; decoded ones get the callback's or a library buffer *)
Origins ==
    finished => \A i \in Src : tabl[i] \in (IF tabl[i] = "app" THEN {"app"} ELSE IF cbMode = "buf" THEN {"cb"} ELSE {"lib"})

(* C11: one callback per decoded (not received) source symbol *)
CbContract ==
    /\ cbMode = "none" => cbLog = <<>>
    /\ \A j \in DOMAIN cbLog : cbLog[j] \in Src
    /\ Cardinality({ cbLog[j] : j \in DOMAIN cbLog }) = Len(cbLog)
    /\ (finished /\ cbMode # "none") => { cbLog[j] : j \in DOMAIN cbLog } = { i \in Src : tabl[i] # "app" }

(* the unguarded repair scan of of_rs_finish_decoding never leaves the table, the k selected ESIs are distinct *)
ScanInRange == ~scanBad
Counters == ~finished => (nAvail = Cardinality({ e \in All : tabl[e] # "none" }) /\ nAvailSrc = Cardinality({ e \in Src : tabl[e] # "none" }))
=============================================================================
