----------------------------- MODULE ParkMiller -----------------------------
(***************************************************************************)
(* The Park-Miller "minimal standard" generator required by RFC 5170:      *)
(*     s' = 16807 * s mod (2^31 - 1),  s in 1 .. 2^31-2                    *)
(* and the RFC's scaling of the new state to 0 .. maxv-1:                  *)
(*     floor( s' * maxv / (2^31 - 1) )                                     *)
(* TLC integers are 32-bit and overflow is an error, so the step uses      *)
(* Schrage's decomposition and the scaling a bit-serial multiply/divide;   *)
(* every intermediate value stays below 2^31.                              *)
(***************************************************************************)
EXTENDS Naturals, Integers, Sequences, SequencesExt

P31 == 2147483647          \* 2^31 - 1
MULT == 16807
SQ == 127773               \* P31 \div MULT
SR == 2836                 \* P31 % MULT

ValidState(s) == s >= 1 /\ s <= P31 - 1

PMNext(s) ==
    LET hi == s \div SQ
        lo == s % SQ
        t  == MULT * lo - SR * hi
    IN  IF t > 0 THEN t ELSE t + P31

(* x + y mod P31 and carry, for x, y < P31, without exceeding 2^31 - 1 *)
AddModP(x, y) == IF x >= P31 - y THEN [c |-> 1, v |-> x - (P31 - y)] ELSE [c |-> 0, v |-> x + y]

Bits(b, nbits) == [ i \in 1 .. nbits |-> (b \div (2 ^ (nbits - i))) % 2 ]   \* MSB first

(* <<floor(a*b / P31), a*b mod P31>> for 0 <= a < P31, 0 <= b < 2^24 *)
MulDivP(a, b) ==
    LET step(acc, bit) ==
            LET d  == AddModP(acc.r, acc.r)                 \* double
                q2 == 2 * acc.q + d.c
                e  == IF bit = 1 THEN AddModP(d.v, a) ELSE [c |-> 0, v |-> d.v]
            IN  [q |-> q2 + e.c, r |-> e.v]
    IN  FoldLeft(step, [q |-> 0, r |-> 0], Bits(b, 24))

Scale(s1, maxv) == MulDivP(s1, maxv).q

(* one call of the RFC's rand(maxv) from state s: <<new state, result>> *)
PMRand(s, maxv) == LET s1 == PMNext(s) IN <<s1, Scale(s1, maxv)>>

(* state after n steps, by repeated squaring of the multiplier (mod P31) *)
MulModP(a, b) ==      \* a, b < P31 (b up to 31 bits)
    LET step(acc, bit) ==
            LET d == AddModP(acc, acc).v
            IN  IF bit = 1 THEN AddModP(d, a).v ELSE d
    IN  FoldLeft(step, 0, Bits(b, 31))

RECURSIVE PowModP(_, _)
PowModP(a, e) == IF e = 0 THEN 1
                 ELSE LET h == PowModP(a, e \div 2)
                          h2 == MulModP(h, h)
                      IN  IF e % 2 = 1 THEN MulModP(h2, a) ELSE h2

StateAfter(s, n) == MulModP(PowModP(MULT, n), s)

(* seeding: exactly 1 .. 2^31-2 is accepted; anything else leaves the state alone *)
Seed(prev, v) == IF v >= 1 /\ v <= P31 - 1 THEN v ELSE prev

=============================================================================
