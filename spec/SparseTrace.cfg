SPECIFICATION TraceSpec
CONSTANTS
  BlockSize = 1024
  ResetFreeOnClear = TRUE
  Dims <- DimsNone
  NSparse = 4
  NDense = 4
  MaxDepth = 0
CHECK_DEADLOCK FALSE
POSTCONDITION TraceConsumed
