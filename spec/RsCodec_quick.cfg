SPECIFICATION Spec
CONSTANTS M = 4
 MaxK = 14
 Pool = {0,1,2,3,4,5,6,7,8,9}
INVARIANTS EncIsGenerator FullMatrixAgrees VdmInverse DecodeOK DiagonalPivotsSuffice
CHECK_DEADLOCK FALSE
