SPECIFICATION Spec
CONSTANT UseCb = TRUE
CONSTANT Points <- PointsQuick
INVARIANTS Sound ItIsPeeling CountersSane PartialSums NoNullDeref ClaimTruthful LedgerOK NoLeakAtRelease
CHECK_DEADLOCK FALSE
