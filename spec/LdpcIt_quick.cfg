SPECIFICATION Spec
CONSTANT Points <- PointsQuick
INVARIANTS Sound ItIsPeeling CountersSane PartialSums NoNullDeref ClaimTruthful
CHECK_DEADLOCK FALSE
