SPECIFICATION MSpec
CONSTANT UseCb = TRUE
CONSTANT Points <- MlPointsQuick
INVARIANTS MlLedgerOK MlNoLeakAtRelease MlComplete MlStatus MlSound MlNoNullDest MlIndexInRange RankLemma ItBeforeFinish
CHECK_DEADLOCK FALSE
