------------------------------ MODULE RsCodec ------------------------------
(***************************************************************************)
(* Implementation-shaped model of the Reed-Solomon arithmetic core shared  *)
(* by both codecs (Rizzo's fec.c as found in of_reed-solomon_gf_2_8.c and  *)
(* in galois_field_codes_utils/{of_galois_field_code,algebra_2_4,          *)
(* algebra_2_8}.c): the construction of the systematic encoding matrix     *)
(* (Vandermonde fill, closed-form inversion of the top square by synthetic *)
(* division, product), the shuffle of the k symbols handed to the decoder, *)
(* the decoding matrix and its in-place Gauss-Jordan inversion with the    *)
(* code's own pivot search, row swaps and final column swaps, and the      *)
(* reconstruction of the missing source symbols.                           *)
(*                                                                         *)
(* Every operator is a transcription of one C function (named in the       *)
(* comment above it); matrices are functions [0..R-1 -> [0..C-1 -> gf]]    *)
(* like the row-major C arrays.  The definitional side is module GF2m:     *)
(* IsGeneratorRow says what a generator row *is* (g * V_top = V[esi]).     *)
(* RsCodecModel checks, for every k and every selection of k symbols       *)
(* (all of GF(2^4), samples of GF(2^8)), that the transcribed algorithm    *)
(* produces generator rows, that the selection is invertible (the MDS      *)
(* lemma which RsSession assumes) and that reconstruction returns the      *)
(* source symbols.  The code is bound to IsGeneratorRow by C06 (built      *)
(* repair symbols with identity payloads are the rows of enc_matrix) and   *)
(* to the reconstruction by C01/C02 (decoded coefficient vectors).         *)
(***************************************************************************)
EXTENDS Naturals, Integers, Sequences, FiniteSets, GF2m, TLC

(* TLC evaluates function constructors lazily and does not memoise applications: every vector *)
(* and matrix built below is forced (TLCEval), or the nested eliminations cost 2^k.          *)
Mat(R, C, f(_, _)) == TLCEval([ r \in 0 .. (R - 1) |-> TLCEval([ c \in 0 .. (C - 1) |-> f(r, c) ]) ])
Ident(k) == Mat(k, k, LAMBDA r, c : IF r = c THEN 1 ELSE 0)

(* of_rs_2m_build_encoding_matrix, first part: tmp_m *)
VdmFill(k, n, m) ==
    Mat(n, k, LAMBDA row, col : IF row = 0 THEN (IF col = 0 THEN 1 ELSE 0)
                                ELSE GExp(((row - 1) * col) % NN(m), m))

(* of_galois_field_2_X_matmul: C = A B, A is n x k, B is k x mm *)
MatMul(A, B, n, k, mm, m) ==
    Mat(n, mm, LAMBDA row, col : Sum([ i \in 1 .. k |-> Mul(A[row][i - 1], B[i - 1][col], m) ]))

(* of_galois_field_2_X_invert_vdm: src is k x k Vandermonde, points p[i] = src[i][1] *)
RECURSIVE VdmCoeff(_, _, _, _, _)
VdmCoeff(c, p, i, k, m) ==       \* coefficients of Prod (x - p_j), built recursively (c[k] = 1 implicit)
    IF i = k THEN c
    ELSE LET pi == p[i]
             c1 == TLCEval([ j \in 0 .. (k - 1) |->
                        IF j = k - 1 THEN c[j] ^^ pi
                        ELSE IF j >= k - 1 - (i - 1) THEN c[j] ^^ Mul(pi, c[j + 1], m)
                        ELSE c[j] ])
         IN  VdmCoeff(c1, p, i + 1, k, m)

RECURSIVE SynthDiv(_, _, _, _, _, _)
SynthDiv(b, t, i, xx, c, m) ==   \* the inner "synthetic division" loop, i = k-2 downto 0; returns <<b, t>>
    IF i < 0 THEN <<b, t>>
    ELSE LET bi == c[i + 1] ^^ Mul(xx, b[i + 1], m)
         IN  SynthDiv([b EXCEPT ![i] = bi], Mul(xx, t, m) ^^ bi, i - 1, xx, c, m)

InvertVdm(src, k, m) ==
    IF k = 1 THEN src
    ELSE LET p  == TLCEval([ i \in 0 .. (k - 1) |-> src[i][1] ])
             c0 == TLCEval([ i \in 0 .. (k - 1) |-> IF i = k - 1 THEN p[0] ELSE 0 ])
             c  == VdmCoeff(c0, p, 1, k, m)
             rowres == TLCEval([ row \in 0 .. (k - 1) |->
                            SynthDiv(TLCEval([ i \in 0 .. (k - 1) |-> IF i = k - 1 THEN 1 ELSE 0 ]), 1, k - 2, p[row], c, m) ])
         IN  Mat(k, k, LAMBDA col, row : Mul(Inv(rowres[row][2], m), rowres[row][1][col], m))

(* of_rs_2m_build_encoding_matrix: identity on top, bottom = V_bottom * V_top^-1 *)
EncMatrix(k, n, m) ==
    LET V    == VdmFill(k, n, m)
        top  == TLCEval([ r \in 0 .. (k - 1) |-> V[r] ])
        inv  == InvertVdm(top, k, m)
        bot  == TLCEval([ r \in 0 .. (n - k - 1) |-> V[k + r] ])
        prod == MatMul(bot, inv, n - k, k, k, m)
    IN  Mat(n, k, LAMBDA r, c : IF r < k THEN (IF r = c THEN 1 ELSE 0) ELSE prod[r - k][c])

(* the same rows, computed only for the ESIs of E (big codes: n = 255) *)
EncRowsOn(k, E, m) ==
    LET V    == TLCEval([ row \in (0 .. (k - 1)) \cup E |-> TLCEval([ col \in 0 .. (k - 1) |->
                    IF row = 0 THEN (IF col = 0 THEN 1 ELSE 0) ELSE GExp(((row - 1) * col) % NN(m), m) ]) ])
        inv  == InvertVdm(TLCEval([ r \in 0 .. (k - 1) |-> V[r] ]), k, m)
    IN  TLCEval([ e \in (0 .. (k - 1)) \cup E |->
            IF e < k THEN TLCEval([ c \in 0 .. (k - 1) |-> IF e = c THEN 1 ELSE 0 ])
            ELSE TLCEval([ c \in 0 .. (k - 1) |-> Sum([ i \in 1 .. k |-> Mul(V[e][i - 1], inv[i - 1][c], m) ]) ]) ])

-----------------------------------------------------------------------------
(* of_rs_2m_shuffle: index = function 0..k-1 -> ESI; returns [idx, err] *)
RECURSIVE Shuffle(_, _, _, _)
Shuffle(index, i, k, fuel) ==
    IF i >= k \/ fuel = 0 THEN [idx |-> index, err |-> FALSE, fuel |-> fuel]
    ELSE IF index[i] >= k \/ index[i] = i THEN Shuffle(index, i + 1, k, fuel)
    ELSE LET c == index[i]
         IN  IF index[c] = c THEN [idx |-> index, err |-> TRUE, fuel |-> fuel]
             ELSE Shuffle([index EXCEPT ![i] = index[c], ![c] = index[i]], i, k, fuel - 1)

(* of_rs_2m_build_decoding_matrix before the inversion *)
DecRows(enc, index, k) ==
    Mat(k, k, LAMBDA i, c : IF index[i] < k THEN (IF c = i THEN 1 ELSE 0) ELSE enc[index[i]][c])

(* of_galois_field_2_X_invert_mat: in-place Gauss-Jordan; state record per column *)
PivotSearch(src, ipiv, col, k) ==          \* <<irow, icol>> or <<-1, -1>>
    IF ipiv[col] # 1 /\ src[col][col] # 0 THEN <<col, col>>
    ELSE LET cand == { rc \in (0 .. (k - 1)) \X (0 .. (k - 1)) :
                           ipiv[rc[1]] # 1 /\ ipiv[rc[2]] = 0 /\ src[rc[1]][rc[2]] # 0 }
         IN  IF cand = {} THEN <<-1, -1>>
             ELSE CHOOSE rc \in cand : \A o \in cand : rc[1] < o[1] \/ (rc[1] = o[1] /\ rc[2] <= o[2])

SwapRows(src, a, b) == [src EXCEPT ![a] = src[b], ![b] = src[a]]
SwapCols(src, a, b, k) == TLCEval([ r \in 0 .. (k - 1) |-> [src[r] EXCEPT ![a] = src[r][b], ![b] = src[r][a]] ])

RECURSIVE GaussJordan(_, _, _)
GaussJordan(st, k, m) ==          \* st = [src, ipiv, indxr, indxc, col, fail, offdiag]; offdiag is a ghost: the pivot search left the diagonal
    IF st.fail \/ st.col = k THEN st
    ELSE LET piv == PivotSearch(st.src, st.ipiv, st.col, k)
         IN  IF piv[2] = -1 THEN [st EXCEPT !.fail = TRUE]
             ELSE LET irow == piv[1]
                      icol == piv[2]
                      s1 == IF irow # icol THEN SwapRows(st.src, irow, icol) ELSE st.src
                      c  == s1[icol][icol]
                  IN  IF c = 0 THEN [st EXCEPT !.fail = TRUE]
                      ELSE LET prow == IF c = 1 THEN s1[icol]
                                       ELSE LET ci == Inv(c, m)
                                                r1 == [s1[icol] EXCEPT ![icol] = 1]
                                            IN  TLCEval([ ix \in 0 .. (k - 1) |-> Mul(ci, r1[ix], m) ])
                               s2 == [s1 EXCEPT ![icol] = prow]
                               isId == \A ix \in 0 .. (k - 1) : prow[ix] = (IF ix = icol THEN 1 ELSE 0)
                               s3 == IF isId THEN s2
                                     ELSE TLCEval([ r \in 0 .. (k - 1) |->
                                              IF r = icol THEN prow
                                              ELSE LET cc == s2[r][icol]
                                                       z  == [s2[r] EXCEPT ![icol] = 0]
                                                   IN  IF cc = 0 THEN z
                                                       ELSE TLCEval([ ix \in 0 .. (k - 1) |-> z[ix] ^^ Mul(cc, prow[ix], m) ]) ])
                           IN  GaussJordan([ src |-> s3, ipiv |-> [st.ipiv EXCEPT ![icol] = @ + 1],
                                             indxr |-> [st.indxr EXCEPT ![st.col] = irow],
                                             indxc |-> [st.indxc EXCEPT ![st.col] = icol],
                                             col |-> st.col + 1, fail |-> FALSE,
                                             offdiag |-> st.offdiag \/ irow # st.col \/ icol # st.col ], k, m)

RECURSIVE Unscramble(_, _, _, _, _)
Unscramble(src, indxr, indxc, col, k) ==
    IF col < 0 THEN src
    ELSE Unscramble(IF indxr[col] # indxc[col] THEN SwapCols(src, indxr[col], indxc[col], k) ELSE src,
                    indxr, indxc, col - 1, k)

InvertMat(src, k, m) ==           \* [fail, mat]
    LET z == TLCEval([ i \in 0 .. (k - 1) |-> 0 ])
        st == GaussJordan([ src |-> src, ipiv |-> z, indxr |-> z, indxc |-> z, col |-> 0, fail |-> FALSE, offdiag |-> FALSE ], k, m)
    IN  IF st.fail THEN [fail |-> TRUE, mat |-> src, offdiag |-> st.offdiag]
        ELSE [fail |-> FALSE, mat |-> Unscramble(st.src, st.indxr, st.indxc, k - 1, k), offdiag |-> st.offdiag]

(***************************************************************************)
(* of_rs_2m_decode with identity payloads: the symbol in slot col is the   *)
(* coefficient vector of ESI idx[col]; slots holding a repair symbol are   *)
(* overwritten with  sum_col dec[row][col] * pkt[col].                     *)
(***************************************************************************)
Decode(enc, index0, k, m) ==
    LET sh  == Shuffle(index0, 0, k, k * k + 1)
        idx == sh.idx
        D   == DecRows(enc, idx, k)
        inv == InvertMat(D, k, m)
        pkt == TLCEval([ col \in 0 .. (k - 1) |-> enc[idx[col]] ])
        out == TLCEval([ row \in 0 .. (k - 1) |->
                   IF idx[row] < k THEN pkt[row]
                   ELSE TLCEval([ j \in 0 .. (k - 1) |-> Sum([ col \in 1 .. k |-> Mul(inv.mat[row][col - 1], pkt[col - 1][j], m) ]) ]) ])
    IN  [ err |-> sh.err \/ sh.fuel = 0, singular |-> inv.fail, out |-> out, idx |-> idx, offdiag |-> inv.offdiag ]

=============================================================================
