----------------------------- MODULE GF2mModel -----------------------------
(***************************************************************************)
(* Exhaustive justification of the derived operators of module GF2m: for   *)
(* every pair of elements of GF(2^4) and GF(2^8) the exp/log based product *)
(* equals the shift-and-reduce definition, x generates the multiplicative  *)
(* group, inverses are inverses, and the Reed-Solomon evaluation points    *)
(* 0, 1, x, x^2, ... are pairwise distinct (so the Vandermonde top square  *)
(* is invertible and the systematic generator is well defined and MDS).    *)
(* One TLC state per (m, a, b).                                            *)
(***************************************************************************)
EXTENDS Naturals, Sequences, FiniteSets, GF2m

VARIABLE p
Init == p \in ([m : {4}, a : 0 .. 15, b : 0 .. 15] \cup [m : {8}, a : 0 .. 255, b : 0 .. 255])
Next == UNCHANGED p

MulAgrees == Mul(p.a, p.b, p.m) = MulDef(p.a, p.b, p.m)
MulCommutes == Mul(p.a, p.b, p.m) = Mul(p.b, p.a, p.m)
InvIsInverse == p.a # 0 => Mul(p.a, Inv(p.a, p.m), p.m) = 1
NoZeroDivisors == (p.a # 0 /\ p.b # 0) => Mul(p.a, p.b, p.m) # 0
GeneratorOrder == { GExp(i, p.m) : i \in 0 .. (NN(p.m) - 1) } = 1 .. NN(p.m)
Distinct == (p.a < NN(p.m) /\ p.b < NN(p.m) /\ p.a # p.b) => Point(p.a, p.m) # Point(p.b, p.m)
PowAgrees == p.b <= 16 => Pow(p.a, p.b, p.m) = (IF p.b = 0 THEN 1 ELSE Mul(p.a, Pow(p.a, p.b - 1, p.m), p.m))
=============================================================================
