------------------------------ MODULE DenseSim ------------------------------
(***************************************************************************)
(* Behaviour export: TLC simulation of DenseMatrix with randomly           *)
(* parameterised operations on dimensions around the word boundaries       *)
(* (WordSize = 32).  Every simulated behaviour of SimDepth operations is   *)
(* printed as JSON; checks/dense.py replays it on the real module and      *)
(* validates the trace with DenseTrace.                                    *)
(***************************************************************************)
EXTENDS DenseMatrix, Json

CONSTANTS SimDepth
VARIABLE hist

SimDims == {<<1, 1>>, <<2, 3>>, <<3, 3>>, <<2, 31>>, <<3, 32>>, <<2, 33>>, <<3, 63>>, <<2, 64>>, <<3, 65>>, <<4, 40>>}
Rnd(n) == RandomElement(0 .. (IF n >= 1 THEN n - 1 ELSE 0))
RndSeq(n, k) == [i \in 1 .. n |-> Rnd(k)]
Edge(C) == RandomElement({ c \in {0, 1, 30, 31, 32, 33, 62, 63, 64, C - 1, Rnd(C)} : c >= 0 /\ (c < C \/ c = 0) })

SimCandidates(S_) ==
    LET a == Rnd(NDense)
        b == Rnd(NDense)
        A == S_.dn[a + 1]
        B == S_.dn[b + 1]
        dim == RandomElement(SimDims)
    IN  {  Mk("dalloc", a, 0, dim[1], dim[2], <<>>, <<>>),
           Mk("dset", a, 1, Rnd(A.R), Edge(A.C), <<>>, <<>>),
           Mk("dset", a, 1, Rnd(A.R), Rnd(A.C), <<>>, <<>>),
           Mk("dset", a, 0, Rnd(A.R), Edge(A.C), <<>>, <<>>),
           Mk("dflip", a, 0, Rnd(A.R), Edge(A.C), <<>>, <<>>),
           Mk("dflip", a, 0, Rnd(A.R), Rnd(A.C), <<>>, <<>>),
           Mk("dget", a, 0, Rnd(A.R), Edge(A.C), <<>>, <<>>),
           Mk("dxor", a, 0, Rnd(A.R), Rnd(A.R), <<>>, <<>>),
           Mk("drw", a, 0, Rnd(A.R), 0, <<>>, <<>>),
           Mk("drwi", a, 0, Rnd(A.R), WordSize * Rnd(A.C \div WordSize + 1), <<>>, <<>>),
           Mk("dcw", a, 0, 0, Edge(A.C), <<>>, <<>>),
           Mk("dempty", a, 0, Rnd(A.R), 0, <<>>, <<>>),
           Mk("dclear", a, 0, 0, 0, <<>>, <<>>),
           Mk("dfree", a, 0, 0, 0, <<>>, <<>>),
           Mk("dcopy", a, b, 0, 0, <<>>, <<>>),
           Mk("dcopyrows", a, b, 0, 0, RndSeq(B.R, A.R), <<>>),
           Mk("dcopycols", a, b, 0, 0, RndSeq(B.C, A.C), <<>>) }

SimInit == S = S0 /\ pt = <<>> /\ hist = <<>>
SimNext == /\ Len(hist) < SimDepth
           /\ UNCHANGED pt
           /\ \E o \in SimCandidates(S) : Enabled(S, o) /\ S' = Apply(S, o) /\ hist' = Append(hist, o)

Export == Len(hist) = SimDepth => PrintT(<<"BEH", ToJson(hist)>>)
=============================================================================
