----------------------------- MODULE Ldpc2D_MC -----------------------------
(* the shared IT/ML engines on 2D product parity codes (C16, model side) *)
EXTENDS LdpcMl, Pchk2D
P2(dd, ll) == [k |-> dd * ll, r |-> dd + ll, N1 |-> 0, seed |-> dd]
Pts2DQuick == { P2(2, 2), P2(1, 3), P2(2, 3) }
Pts2DThorough == Pts2DQuick \cup { P2(3, 2), P2(3, 3), P2(2, 4) }
IsProduct == IsProductCode(HOf(pt), pt.k, pt.r)
=============================================================================
