SPECIFICATION Spec
CONSTANT MaxN = 7
INVARIANTS RsMds StatusTruth CompleteAll Origins CbContract ScanInRange Counters
CHECK_DEADLOCK FALSE
