------------------------------- MODULE LdpcIt -------------------------------
(***************************************************************************)
(* Implementation-shaped model of the streaming (iterative / peeling)      *)
(* decoder  of_linear_binary_code_decode_with_new_symbol                   *)
(* (src/lib_common/linear_binary_codes_utils/it_decoding/of_it_decoding.c) *)
(* as used by the LDPC-Staircase codec, including the decoder's            *)
(* self-injection of the null last repair symbol at configuration time.    *)
(*                                                                         *)
(* Same variables as the control block, same steps as the C function:      *)
(*   step 0  duplicate test (table lookup)                                 *)
(*   step 1  store the symbol; early return when all sources are known     *)
(*   step 2  for each equation of the symbol's column, in row order:       *)
(*           count it, start a partial sum when one unknown is left, add   *)
(*           the symbol unless it is the row's last entry, delete its      *)
(*           entry, sweep the row (add + delete every known member),       *)
(*           register the row when one entry is left                       *)
(*   step 3  walk the registered rows backwards; stop when complete;       *)
(*           re-test "one entry left"; release the symbol; recurse         *)
(* Symbol values are coefficient vectors over the k source symbols (sets   *)
(* of source ESIs; XOR = symmetric difference), so "the decoded symbol is  *)
(* the encoded one for every source block" is  tab[e] = cw[e].             *)
(*                                                                         *)
(* TLC explores every arrival sequence (with repetitions) of every         *)
(* parameter point of the configuration and checks that the transcription  *)
(* refines the definitional peeling closure of module GF2 (C04), is sound  *)
(* (C01) and never dereferences a missing partial sum.                     *)
(***************************************************************************)
EXTENDS Naturals, Integers, Sequences, FiniteSets, TLC, SequencesExt, FiniteSetsExt, GF2, PchkRfc5170

CONSTANTS Points          \* set of records [k, r, N1, seed]

NoVal == {-1}             \* "NULL pointer", same shape as a vector

VARIABLES pt,             \* parameter point of this session
          tab,            \* encoding_symbols_tab : ESI -> NoVal or value
          M,              \* remaining entries of pchk_matrix : set of <<row, esi>>
          unk,            \* tab_nb_unknown_symbols
          deg,            \* tab_nb_enc_symbols_per_equ
          ct,             \* tab_const_term_of_equ : row -> NoVal or partial sum
          nrep,           \* nb_repair_symbol_ready
          led,            \* allocation ledger (ghost): [ctid, bid, heap, next, bad] -- which malloc'ed block backs
                          \* each partial sum / stored symbol, the set of live library blocks, invalid frees
          rcvd,           \* history: ESIs submitted by the application
          nullderef       \* history: a NULL partial sum was handed to the recursion

vars == <<pt, tab, M, unk, deg, ct, nrep, led, rcvd, nullderef>>

(* a point with N1 = 0 denotes the 2D product parity code with `seed' row checks of k/seed symbols each  *)
(* (the generic IT/ML engines are shared by the LDPC-Staircase and the 2D parity codecs)                 *)
Product2D(dd, ll) ==
    LET k == dd * ll
    IN  [ x \in 1 .. (dd + ll) |->
            IF x <= dd THEN { (x - 1) * ll + c : c \in 0 .. (ll - 1) } \cup { k + x - 1 }
            ELSE { (x - dd - 1) + j * ll : j \in 0 .. (dd - 1) } \cup { k + x - 1 } ]
Code == [ p \in Points |-> IF p.N1 = 0
                           THEN [ H |-> Product2D(p.seed, p.k \div p.seed), extra |-> TRUE, draws |-> 0, final |-> 0, ins |-> <<>> ]
                           ELSE Rfc5170(p.k, p.r, p.N1, p.seed) ]
HOf(p) == Code[p].H
K(p) == p.k
N(p) == p.k + p.r
Rows(p) == 0 .. (p.r - 1)
Src(p) == 0 .. (p.k - 1)

(* the codeword as coefficient vectors: repair i = XOR of the other members of row i *)
RECURSIVE CwUpTo(_, _)
CwUpTo(p, i) ==     \* function on 0 .. k+i-1
    IF i = 0 THEN [ e \in Src(p) |-> {e} ]
    ELSE LET prev == CwUpTo(p, i - 1)
             row  == HOf(p)[i] \ { p.k + i - 1 }
             v    == XorSeq([ j \in 1 .. Cardinality(row) |-> prev[SetToSeq(row)[j]] ])
         IN  [ e \in 0 .. (p.k + i - 1) |-> IF e = p.k + i - 1 THEN v ELSE prev[e] ]
CwTab == [ p \in Points |-> CwUpTo(p, p.r) ]

ClaimsNull(p) == p.N1 > 0 /\ (p.N1 % 2 = 0) /\ ~Code[p].extra

(***************************************************************************)
(* The decoder state as one record, so that the recursion of the C code    *)
(* can be written as a recursive operator on states.                       *)
(***************************************************************************)
IsComplete(p, st) == \A i \in Src(p) : st.tab[i] # NoVal

RowMembers(st, row) == { e[2] : e \in { f \in st.M : f[1] = row } }
ColRows(st, esi) == { e[1] : e \in { f \in st.M : f[2] = esi } }

(***************************************************************************)
(* Allocation ledger threaded through the transcription (C08, model side): *)
(* every of_malloc/of_calloc site of the C function takes a fresh block id,*)
(* every of_free site returns one.  Buffer ids: -1 = application buffer,   *)
(* -2 = buffer handed out by the application's callback, > 0 = library.    *)
(***************************************************************************)
CONSTANT UseCb          \* the application registered a source callback that returns buffers

\* block ids are canonical (a function of what the block is for), so the ledger adds no history to the state:
\*   1000 + row : partial sum of an equation      2000 + esi : library copy of a repair symbol
\*   3000 + esi : degree-one work table of the call injecting esi      4000 : the temporary null symbol
LAlloc(L, id) == IF id \in L.heap THEN [L EXCEPT !.bad = TRUE] ELSE [L EXCEPT !.heap = L.heap \cup {id}]
LFree(L, id) == IF id \in L.heap THEN [L EXCEPT !.heap = L.heap \ {id}] ELSE [L EXCEPT !.bad = TRUE]
Led0(p) == [ ctid |-> [ row \in Rows(p) |-> 0 ], bid |-> [ e \in 0 .. (N(p) - 1) |-> 0 ], heap |-> {}, bad |-> FALSE ]

(* step 2 for one row; acc = [st, reg] *)
Step2Row(p, acc, row, esi, v) ==
    LET st    == acc.st
        unk1  == st.unk[row] - 1
        ct0   == st.ct[row]
        ct1   == IF ct0 = NoVal /\ unk1 = 1 THEN {} ELSE ct0          \* calloc'ed partial sum
    IN  IF ct1 # NoVal
        THEN LET ct2    == IF st.deg[row] > 1 THEN SymDiff(ct1, v) ELSE ct1
                 M1     == st.M \ { <<row, esi>> }
                 known  == { x \in { e[2] : e \in { f \in M1 : f[1] = row } } : st.tab[x] # NoVal }
                 ct3    == XorSeq(<<ct2>> \o [ j \in 1 .. Cardinality(known) |-> st.tab[SetToSeq(known)[j]] ])
                 M2     == M1 \ { <<row, x>> : x \in known }
                 deg2   == st.deg[row] - 1 - Cardinality(known)
                 L1     == IF ct0 = NoVal THEN [LAlloc(st.led, 1000 + row) EXCEPT !.ctid[row] = 1000 + row] ELSE st.led   \* calloc
                 st2    == [st EXCEPT !.unk[row] = unk1, !.ct[row] = ct3, !.M = M2, !.deg[row] = deg2, !.led = L1]
             IN  [ st |-> st2, reg |-> IF deg2 = 1 THEN Append(acc.reg, row) ELSE acc.reg ]
        ELSE [ st  |-> [st EXCEPT !.unk[row] = unk1],
               reg |-> IF st.deg[row] = 1 THEN Append(acc.reg, row) ELSE acc.reg ]

RECURSIVE InjectB(_, _, _, _, _), Step3(_, _, _, _)

Step3(p, st, reg, idx) ==           \* idx walks Len(reg) .. 1
    IF idx = 0 \/ IsComplete(p, st) THEN st
    ELSE LET row == reg[idx]
         IN  IF st.deg[row] = 1
             THEN LET e2  == CHOOSE x \in RowMembers(st, row) : TRUE
                      cv  == st.ct[row]
                      cid == st.led.ctid[row]
                      st1 == [st EXCEPT !.ct[row] = NoVal, !.deg[row] = 0, !.M = st.M \ { <<row, e2>> },
                                        !.bad = st.bad \/ cv = NoVal, !.led.ctid[row] = 0]
                      val == IF cv = NoVal THEN {} ELSE cv
                  IN  IF e2 < p.k
                      THEN IF UseCb
                           THEN \* callback buffer: memcpy, free the partial sum, recurse with the callback's buffer
                                Step3(p, InjectB(p, [st1 EXCEPT !.led = LFree(st1.led, cid)], e2, val, -2), reg, idx - 1)
                           ELSE \* the partial-sum buffer becomes the decoded source symbol
                                Step3(p, InjectB(p, st1, e2, val, cid), reg, idx - 1)
                      ELSE \* repair symbol: recurse (the decoder takes its own copy), then free the partial sum
                           LET st2 == InjectB(p, st1, e2, val, cid)
                           IN  Step3(p, [st2 EXCEPT !.led = LFree(st2.led, cid)], reg, idx - 1)
             ELSE Step3(p, st, reg, idx - 1)

InjectB(p, st, esi, v, b) ==
    IF st.tab[esi] # NoVal THEN st                                   \* step 0
    ELSE LET L1  == IF esi >= p.k THEN [LAlloc(st.led, 2000 + esi) EXCEPT !.bid[esi] = 2000 + esi]      \* repair: malloc + memcpy
                    ELSE [st.led EXCEPT !.bid[esi] = b]                                       \* source: pointer kept
             st1 == [st EXCEPT !.tab[esi] = v, !.nrep = IF esi >= p.k THEN st.nrep + 1 ELSE st.nrep, !.led = L1]   \* step 1
         IN  IF esi < p.k /\ IsComplete(p, st1) THEN st1
             ELSE LET rows == SetToSortSeq(ColRows(st1, esi), LAMBDA a, b2 : a < b2)     \* column traversal, increasing row
                      a2   == FoldLeft(LAMBDA acc, row : Step2Row(p, acc, row, esi, v),
                                       [st |-> st1, reg |-> <<>>], rows)
                      \* the degree-one work table: allocated on first use, freed at the end of the call
                      tid  == 3000 + esi
                      a3   == IF a2.reg # <<>> THEN [a2.st EXCEPT !.led = LAlloc(a2.st.led, tid)] ELSE a2.st
                      r3   == Step3(p, a3, a2.reg, Len(a2.reg))
                  IN  IF a2.reg # <<>> THEN [r3 EXCEPT !.led = LFree(r3.led, tid)] ELSE r3

(* a symbol handed over by the application *)
Inject(p, st, esi, v) == InjectB(p, st, esi, v, -1)

StateRec == [ tab |-> tab, M |-> M, unk |-> unk, deg |-> deg, ct |-> ct, nrep |-> nrep, led |-> led, bad |-> nullderef ]

InitRec(p) ==
    LET H  == HOf(p)
        s0 == [ tab |-> [ e \in 0 .. (N(p) - 1) |-> NoVal ],
                M   |-> UNION { { <<row, e>> : e \in H[row + 1] } : row \in Rows(p) },
                unk |-> [ row \in Rows(p) |-> Cardinality(H[row + 1]) ],
                deg |-> [ row \in Rows(p) |-> Cardinality(H[row + 1]) ],
                ct  |-> [ row \in Rows(p) |-> NoVal ],
                nrep |-> 0,
                led |-> Led0(p),
                bad |-> FALSE ]
        \* the decoder feeds itself a calloc'ed null symbol and frees it afterwards (fix 5b912b9)
        sn == [s0 EXCEPT !.led = LAlloc(s0.led, 4000)]
        s1 == InjectB(p, sn, N(p) - 1, {}, 4000)
    IN  IF ClaimsNull(p) THEN [s1 EXCEPT !.led = LFree(s1.led, 4000)] ELSE s0

Init ==
    /\ pt \in Points
    /\ LET s == InitRec(pt)
       IN  tab = s.tab /\ M = s.M /\ unk = s.unk /\ deg = s.deg /\ ct = s.ct /\ nrep = s.nrep /\ led = s.led /\ nullderef = s.bad
    /\ rcvd = {}

Recv(e) ==
    LET s == Inject(pt, StateRec, e, CwTab[pt][e])
    IN  /\ tab' = s.tab /\ M' = s.M /\ unk' = s.unk /\ deg' = s.deg /\ ct' = s.ct /\ nrep' = s.nrep /\ led' = s.led /\ nullderef' = s.bad
        /\ rcvd' = rcvd \cup {e}
        /\ UNCHANGED pt

Next == \E e \in 0 .. (N(pt) - 1) : Recv(e)

Spec == Init /\ [][Next]_vars

-----------------------------------------------------------------------------
Known == { e \in 0 .. (N(pt) - 1) : tab[e] # NoVal }
PreKnown == IF ClaimsNull(pt) THEN { N(pt) - 1 } ELSE {}
Closure == PeelClosure(HOf(pt), rcvd \cup PreKnown)
Complete == \A i \in Src(pt) : tab[i] # NoVal

(* C01: every available symbol has the encoded value *)
Sound == \A e \in Known : tab[e] = CwTab[pt][e]

(* C04: available sources = source part of the peeling closure; before completion  *)
(* the decoder has reached the whole closure (repairs included)                    *)
ItIsPeeling ==
    /\ Known \cap Src(pt) = Closure \cap Src(pt)
    /\ ~Complete => Known = Closure
    /\ Complete <=> Src(pt) \subseteq Closure

CountersSane ==
    /\ nrep = Cardinality({ e \in Known : e >= pt.k })
    /\ \A row \in Rows(pt) : deg[row] = Cardinality({ e \in M : e[1] = row })
    /\ \A row \in Rows(pt) : unk[row] >= 0 /\ deg[row] >= 0

(* a partial sum, when present and decoding is not complete, is the XOR of the    *)
(* values of the members already removed from its row, and every remaining        *)
(* member is unknown                                                              *)
PartialSums ==
    ~Complete =>
      \A row \in Rows(pt) : ct[row] # NoVal =>
          LET rest == { e[2] : e \in { f \in M : f[1] = row } }
              gone == HOf(pt)[row + 1] \ rest
          IN  rest # {} =>      \* (an emptied row keeps the sum of all members but the last one)
              /\ ct[row] = XorSeq([ j \in 1 .. Cardinality(gone) |-> CwTab[pt][SetToSeq(gone)[j]] ])
              /\ \A x \in rest : tab[x] = NoVal

NoNullDeref == ~nullderef

(* C08, model side: no block is lost or freed twice inside the recursion -- at every state boundary the live    *)
(* library blocks are exactly those backing a partial sum, a stored repair symbol or a decoded source symbol,    *)
(* pairwise distinct; of_release_codec_instance frees the first two kinds, the third is the application's        *)
LedgerOK ==
    LET cts  == { led.ctid[row] : row \in { r2 \in Rows(pt) : led.ctid[r2] > 0 } }
        bufs == { led.bid[e] : e \in { e2 \in 0 .. (N(pt) - 1) : led.bid[e2] > 0 } }
    IN  /\ ~led.bad
        /\ led.heap = cts \cup bufs
        /\ Cardinality(cts) + Cardinality(bufs) = Cardinality(led.heap)
        /\ \A row \in Rows(pt) : (ct[row] # NoVal) <=> (led.ctid[row] > 0)
        /\ \A e \in 0 .. (N(pt) - 1) : (tab[e] # NoVal) <=> (led.bid[e] # 0)
        /\ \A e \in pt.k .. (N(pt) - 1) : tab[e] # NoVal => led.bid[e] > 0            \* repairs are always library copies
        /\ \A i \in Src(pt) : (i \in rcvd /\ led.bid[i] # 0) => TRUE
ReleasedHeap ==   \* what is still allocated after of_ldpc_staircase_release_codec_instance
    led.heap \ ({ led.ctid[row] : row \in Rows(pt) } \cup { led.bid[e] : e \in pt.k .. (N(pt) - 1) })
NoLeakAtRelease == ReleasedHeap \subseteq { led.bid[i] : i \in Src(pt) }

(* C16: a product parity code recovers any single loss by peeling alone *)
SingleLoss == (pt.N1 = 0 /\ Cardinality(rcvd) >= N(pt) - 1) => Complete

(* the last-symbol claim used at configuration time is truthful (C15, model side) *)
ClaimTruthful == ClaimsNull(pt) => CwTab[pt][N(pt) - 1] = {}
=============================================================================
