----------------------------- MODULE PchkTrace -----------------------------
(***************************************************************************)
(* Validates, for every LDPC-Staircase of_set_fec_parameters line of a     *)
(* recorded trace, that the parity-check equations of that session         *)
(* (observed at the end of the construction, encoder and decoder roles)    *)
(* are those RFC 5170 defines for (k, n, N1, seed)  [C05], and that the    *)
(* "last repair symbol is null" claim is truthful and equal for both       *)
(* roles [C15].  One trace line per TLC step.                              *)
(***************************************************************************)
EXTENDS Naturals, Integers, Sequences, FiniteSets, TLC, Json, IOUtils, SequencesExt, FiniteSetsExt, GF2, PchkRfc5170

TraceLog == TLCGet(7)
LoadLog == TLCSet(7, ndJsonDeserialize(IOEnv.TRACE))

VARIABLES l, claims,  \* claims: <<k,r,N1,seed>> -> claim seen (for enc/dec agreement)
          cnt         \* coverage counters: <<uneven placements, completion entries>> of the validated constructions, <<light lines, light lines with the claim made>>
          , last     \* result of the definition for the current line (a variable so that TLC evaluates it once)
vars == <<l, claims, cnt, last>>

HOf(ev) == [ i \in DOMAIN ev.H |-> ToSet(ev.H[i]) ]

Msg(ev, tags, name) == PrintT(<<"VMSG", l, ev.x, tags, name, ev.codec, ev.role>>)

CheckLine(ev) ==
    LET spec == last'
        H    == HOf(ev)
        n    == ev.k + ev.r
        key  == <<ev.k, ev.r, ev.N1, ev.seed>>
        nullTruth == SumOfRows(H) = {n - 1}
    IN  /\ last' = Rfc5170(ev.k, ev.r, ev.N1, ev.seed)
        /\ IF H = spec.H THEN TRUE ELSE Msg(ev, "C05", "pchk-differs-from-rfc5170")
        /\ IF ev.prng[1] * 65536 + ev.prng[2] = spec.final THEN TRUE ELSE PrintT(<<"DRIFT", l, ev.x, "prng-state-after-construction">>)
        /\ IF "lastnull" \in DOMAIN ev /\ ev.lastnull \in {0, 1} THEN TRUE ELSE Msg(ev, "C15", "lastnull-query-failed")
        /\ IF ev.lastnull = 1 => nullTruth THEN TRUE ELSE Msg(ev, "C15", "lastnull-claimed-but-symbol-not-null")
        /\ IF key \in DOMAIN claims => claims[key] = ev.lastnull THEN TRUE ELSE Msg(ev, "C15", "lastnull-claim-differs-between-sessions")
        /\ claims' = IF key \in DOMAIN claims THEN claims ELSE (key :> ev.lastnull) @@ claims
        /\ cnt' = << cnt[1] + Cardinality({ i \in DOMAIN spec.ins : spec.ins[i][3] = 1 }),
                     cnt[2] + Cardinality({ i \in DOMAIN spec.ins : spec.ins[i][3] \in {2, 3} }), cnt[3], cnt[4] >>

(* Parameter points beyond what the RFC construction can be re-evaluated for in TLC (n-k in the tens of      *)
(* thousands: counters of the construction near their type widths).  The truth of the claim is decided on  *)
(* the equations of the session as observed, which needs no re-construction: claimed => the equations sum  *)
(* to {n-1}; both roles agree.  (Of C05's clause only what holds without any draw is decided: Shape.)      *)
Light(ev) == ev.k + ev.r > 3100
CheckClaim(ev) ==
    LET H    == HOf(ev)
        n    == ev.k + ev.r
        key  == <<ev.k, ev.r, ev.N1, ev.seed>>
        nullTruth == SumOfRows(H) = {n - 1}
        (* what RFC 5170 fixes without any draw: the staircase, at least two source entries per equation (one if   *)
        (* k = 1), N1 entries per source column before completion (so at least k*N1 in all, at most that plus two *)
        (* per equation)                                                                                           *)
        src(i)  == { c \in H[i] : c < ev.k }
        nsrc    == FoldLeft(LAMBDA acc, i : acc + Cardinality(src(i)), 0, [ i \in 1 .. Len(H) |-> i ])
        n1      == IF ev.N1 > ev.r THEN ev.r ELSE ev.N1
        shape   == /\ Len(H) = ev.r
                   /\ \A i \in 1 .. Len(H) :
                        /\ { c \in H[i] : c >= ev.k } = (IF i = 1 THEN {ev.k} ELSE {ev.k + i - 2, ev.k + i - 1})
                        /\ Cardinality(src(i)) >= (IF ev.k = 1 THEN 1 ELSE 2)
                   /\ nsrc >= ev.k * n1 /\ nsrc <= ev.k * n1 + 2 * ev.r
    IN  /\ IF shape THEN TRUE ELSE Msg(ev, "C05", "pchk-structure-not-rfc5170")
        /\ IF "lastnull" \in DOMAIN ev /\ ev.lastnull \in {0, 1} THEN TRUE ELSE Msg(ev, "C15", "lastnull-query-failed")
        /\ IF ev.lastnull = 1 => nullTruth THEN TRUE ELSE Msg(ev, "C15", "lastnull-claimed-but-symbol-not-null")
        /\ IF key \in DOMAIN claims => claims[key] = ev.lastnull THEN TRUE ELSE Msg(ev, "C15", "lastnull-claim-differs-between-sessions")
        /\ claims' = IF key \in DOMAIN claims THEN claims ELSE (key :> ev.lastnull) @@ claims
        /\ cnt' = << cnt[1], cnt[2], cnt[3] + 1, cnt[4] + ev.lastnull >>
        /\ UNCHANGED last

Init == LoadLog /\ l = 1 /\ claims = << >> /\ cnt = <<0, 0, 0, 0>> /\ last = [H |-> <<>>, extra |-> FALSE, draws |-> 0, final |-> 0, ins |-> <<>>]

Next ==
    /\ l <= Len(TraceLog)
    /\ l' = l + 1
    /\ LET ev == TraceLog[l]
       IN  IF ev.e = "SetParams" /\ ev.codec = 3 /\ ev.st = 0 /\ "H" \in DOMAIN ev /\ ev.seed >= 1
           THEN IF Light(ev) THEN CheckClaim(ev) ELSE CheckLine(ev)
           ELSE UNCHANGED <<claims, cnt, last>>
    /\ IF l = Len(TraceLog) THEN PrintT(<<"PSTAT", cnt'[1], cnt'[2], cnt'[3], cnt'[4]>>) ELSE TRUE

TraceSpec == Init /\ [][Next]_vars
TraceConsumed == TLCGet("stats").diameter - 1 = Len(TraceLog)
=============================================================================
