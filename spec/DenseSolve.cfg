INIT SolveInit
NEXT SolveNext
CONSTANTS
  WordSize = 32
  Dims <- DimsNone
  NDense = 1
  MaxP = 4
INVARIANTS SolverLemmas SolutionLemma
CHECK_DEADLOCK FALSE
