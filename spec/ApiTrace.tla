------------------------------ MODULE ApiTrace ------------------------------
(***************************************************************************)
(* Trace specification: validates ndjson traces recorded by                *)
(* /verif/harness/of_driver from the real library against the API-level    *)
(* specification of an OpenFEC session (OpenFecApi).                        *)
(*                                                                         *)
(* The trace is consumed one line per TLC step.  Each line is matched with *)
(* the specification action of the same name; the action's post-condition  *)
(* is evaluated on the logged observations.  A failing conjunct does not   *)
(* block the trace (the rest of the file must still be checked): it is     *)
(* reported as  VMSG <<line, execution, tags, check, codec, context>>  and *)
(* the remainder of that execution is skipped up to the next Reset line.   *)
(* `tags' are the ids of the listed properties the conjunct belongs to.    *)
(***************************************************************************)
EXTENDS Naturals, Integers, Sequences, FiniteSets, TLC, Json, IOUtils, SequencesExt, FiniteSetsExt, GF2, GF2m, Pchk2D, OpenFecApi

TraceLog == TLCGet(7)
LoadLog == TLCSet(7, ndJsonDeserialize(IOEnv.TRACE))

VARIABLES l,      \* next line of TraceLog to consume
          ses,    \* session id -> abstract session state
          skip,   \* a conjunct failed in this execution: skip to Reset
          nviol,  \* number of reported violations (for the post-condition)
          xs,     \* per-execution counters printed at Reset (coverage / vacuity evidence)
          res     \* result of the matched action for the current line: [s, fails].  A variable (not a
                  \* LET) so that TLC evaluates the action once; LET bodies are re-evaluated at each use

vars == <<l, ses, skip, nviol, xs, res>>

NoRes == [ s |-> 0, fails |-> {} ]

XS0 == [ dec |-> 0, finok |-> 0, finfail |-> 0, cbn |-> 0, calls |-> 0, gettab |-> 0, build |-> 0 ]

SessIds == 0 .. 15

(***************************************************************************)
(* Failure bookkeeping.                                                    *)
(***************************************************************************)
F(cond, tags, name) == IF cond THEN {} ELSE { <<tags, name>> }

Ctx(s) == s.cbMode \o (IF s.finished THEN "/fin" ELSE "/str")

Report(fails, ev, s) ==
    \A f \in fails : PrintT(<<"VMSG", l, ev.x, f[1], f[2], s.codec, Ctx(s)>>)

(***************************************************************************)
(* Checks shared by every call line: callback log, buffers, ledger.        *)
(***************************************************************************)
CbRecs(ev) == { ev.cb[i] : i \in DOMAIN ev.cb }
CbEsis(ev) == { ev.cb[i][1] : i \in DOMAIN ev.cb }

(* callbacks allowed/required during a call that moves Avail from A0 to A1,  *)
(* where `submitted' are the source symbols the application has handed over  *)
(* so far (this call included) and `maybe' those for which either outcome    *)
(* is acceptable                                                             *)
CbCheck(s, ev, sid, A0, A1, submitted, maybe) ==
    LET must == IF s.cbMode = "none" THEN {} ELSE (A1 \ A0) \ submitted
        may  == IF s.cbMode = "none" THEN {} ELSE must \cup (maybe \cap A1)
    IN  F(Len(ev.cb) = Cardinality(CbEsis(ev)), "C11", "cb-called-twice")
        \cup F(\A c \in CbRecs(ev) : c[4] = sid, "C11,C12", "cb-wrong-session")
        \cup F(\A c \in CbRecs(ev) : c[1] < s.k, "C11", "cb-esi-not-source")
        \cup F(\A c \in CbRecs(ev) : c[2] = s.len, "C11", "cb-size")
        \cup F(CbEsis(ev) \cap s.cbs = {}, "C11", "cb-called-again")
        \cup F(CbEsis(ev) \cap (s.rcvd \cap Src(s)) \subseteq maybe, "C11", "cb-for-received-symbol")
        \cup F(must \subseteq CbEsis(ev), "C11", "cb-missing-for-decoded")
        \cup F(CbEsis(ev) \subseteq may \cup (CbEsis(ev) \cap s.rcvd), "C11", "cb-for-undecoded")

(* C15: the answer to OF_CRTL_LDPC_STAIRCASE_IS_LAST_SYMBOL_NULL is a property of the configured code: asked again *)
(* at any later point of the session (after symbols were submitted, after repair symbols were built) it is the same *)
ClaimStable(s0, ev) ==
    F(("lastnull" \in DOMAIN ev /\ s0.claimed # -1) => ev.lastnull = s0.claimed, "C15", "lastnull-claim-changed-during-session")

Common(ev) ==
    F(ev.app_ok = 1, "C07", "app-buffer-modified")
    \cup F(ev.ff = 0, "C07,C08", "lib-freed-foreign-block")

(***************************************************************************)
(* Actions.  Each returns [s |-> new session state, fails |-> set].        *)
(***************************************************************************)
DoCreate(ev) ==
    [ s |-> [NoSes EXCEPT !.phase = "created", !.codec = ev.codec, !.role = ev.role,
                          !.both = ("both" \in DOMAIN ev /\ ev.both = 1)],
      fails |-> F(ev.st = OK /\ ev.null = 0, "C09", "create-status") ]

TrulyNull(H, n) == Len(H) > 0 /\ SumOfRows(H) = {n - 1}

Vec(v) == { v[i][1] : i \in DOMAIN v }        \* binary codes: positions of the 1 bits
IsUnitPairs(v, i) == v = << <<i, 1>> >>

DoSetParams(s0, ev) ==
    LET H  == IF "H" \in DOMAIN ev THEN [ i \in DOMAIN ev.H |-> ToSet(ev.H[i]) ] ELSE <<>>
        s1 == [s0 EXCEPT !.phase = IF ev.st = OK THEN "configured" ELSE "badparams",
                         !.k = ev.k, !.n = ev.k + ev.r, !.len = ev.len, !.m = ev.m, !.payload = ev.payload,
                         !.npos = IF "npos" \in DOMAIN ev THEN ev.npos ELSE 0,
                         !.H = H,
                         \* the decoder may count the last repair symbol as received (a zero symbol) only when the
                         \* claim is true of these equations (C15 judges the claim itself; here a false claim simply
                         \* is not a received symbol, so whatever the decoder derives from it is flagged where it shows)
                         !.claim = ("lastnull" \in DOMAIN ev) /\ ev.lastnull = 1 /\ TrulyNull(H, ev.k + ev.r),
                         !.claimed = IF "lastnull" \in DOMAIN ev THEN ev.lastnull ELSE -1]
        cwFails ==
            IF ev.st = OK /\ "cw" \in DOMAIN ev /\ ev.role = "dec" /\ ev.codec \in {3, 5}
            THEN F(IsCodeword(H, [ e \in 0 .. (s1.n - 1) |-> Vec(ev.cw[e + 1]) ]), "INFRA", "driver-codeword-inconsistent")
                 \cup F(\A i \in 0 .. (s1.k - 1) : Vec(ev.cw[i + 1]) = {i}, "INFRA", "driver-payload-not-identity")
            ELSE {}
        known0 == IF ev.st = OK /\ ev.codec \in {3, 5} /\ ev.role = "dec"
                  THEN PeelClosure(H, Pre(s1)) ELSE {}
    IN  [ s |-> [s1 EXCEPT !.known = known0],
          fails |-> F(ev.raw = 1 \/ ev.st = OK, "C09", "params-rejected")
                    \cup F("cw_ok" \notin DOMAIN ev \/ ev.cw_ok = 1, IF ev.codec = 5 THEN "C16" ELSE "INFRA,C06,C09", "driver-codeword")
                    \cup F((ev.codec = 5 /\ ev.st = OK /\ ev.raw = 0) => IsProductCode(H, ev.k, ev.r), "C16", "not-a-product-parity-code")
                    \cup cwFails
                    \cup (IF ev.st = OK THEN Common(ev) ELSE {}) ]

(* source symbols that become available (decoded, not held by pointer) in a call are stored where the callback   *)
(* registered AT THAT TIME says: the registration may come late or be replaced during the session                *)
ViaCb(s0, s1) == s0.viaCb \cup { i \in (Avail(s1) \ Avail(s0)) \ s1.appHeld : WantsBuf(s0, i) }

DoSetCb(s0, ev) ==
    [ s |-> [s0 EXCEPT !.cbMode = ev.mode], fails |-> F(ev.st = OK, "C11", "setcb-status") ]

(* ---- decoder: submission ------------------------------------------------ *)

DoRecv(s0, ev, sid) ==
    LET s1 == RecvNext(s0, ev.esi)
        sub == IF ev.esi < s0.k THEN {ev.esi} ELSE {}
    IN  [ s |-> [s1 EXCEPT !.cbs = s0.cbs \cup CbEsis(ev), !.everComplete = s0.everComplete \/ Complete(s1), !.viaCb = ViaCb(s0, s1)],
          fails |-> F(s0.phase = "configured" /\ s0.role = "dec" /\ ~s0.finished, "INFRA", "driver-protocol")
                    \cup F(IsBin(s0) => Len(s0.H) = s0.n - s0.k, "INFRA", "no-parity-check-equations-in-trace")
                    \cup F(ev.st = OK, "C10,C11", "recv-status")
                    \cup CbCheck(s0, ev, sid, Avail(s0), Avail(s1), s1.rcvd \cap Src(s0), {})
                    \cup Common(ev) ]

DoSetAvail(s0, ev, sid) ==
    LET S  == ToSet(ev.set)
        s1 == SetAvailNext(s0, S)
    IN  [ s |-> [s1 EXCEPT !.cbs = s0.cbs \cup CbEsis(ev), !.everComplete = s0.everComplete \/ Complete(s1), !.viaCb = ViaCb(s0, s1)],
          fails |-> F(s0.phase = "configured" /\ s0.role = "dec" /\ ~s0.finished, "INFRA", "driver-protocol")
                    \cup F(ev.st = OK, "C10", "setavail-status")
                    \cup F(ev.tab_ok = 1, "C07", "setavail-table-modified")
                    \cup CbCheck(s0, ev, sid, Avail(s0), Avail(s1), s1.rcvd \cap Src(s0), s1.appMaybe)
                    \cup Common(ev) ]

(* ---- decoder: finish ---------------------------------------------------- *)

DoFinish(s0, ev, sid) ==
    LET s1 == FinishNext(s0)
        c1 == Complete(s1)
        \* the "iff recoverable" of C03 and the MDS threshold of C02 are decided here,
        \* from the equations / the count only
        tagOk == IF IsRS(s0) THEN "C10,C02" ELSE "C10,C03"
    IN  [ s |-> [s1 EXCEPT !.cbs = s0.cbs \cup CbEsis(ev), !.everComplete = s0.everComplete \/ c1, !.viaCb = ViaCb(s0, s1)],
          fails |-> F(s0.phase = "configured" /\ s0.role = "dec", "INFRA", "driver-protocol")
                    \cup F(c1 => ev.st = OK, IF Complete(s0) THEN "C10" ELSE tagOk,
                           IF Complete(s0) THEN "finish-status-when-already-complete" ELSE "finish-status-not-ok-when-recoverable")
                    \cup F(~c1 => ev.st = FAILURE, tagOk, "finish-status-not-failure-when-unrecoverable")
                    \cup CbCheck(s0, ev, sid, Avail(s0), Avail(s1), s1.rcvd \cap Src(s0), {})
                    \cup Common(ev) ]

(* ---- decoder: queries --------------------------------------------------- *)

DoComplete(s0, ev) ==
    LET c == Complete(s0)
        tags == IF IsRS(s0) THEN "C02,C10,C01"
                ELSE IF s0.codec = 5 THEN "C16"
                ELSE IF s0.finished THEN "C03,C10,C01" ELSE "C04,C10,C01"
    IN  [ s |-> s0,
          fails |-> F(c => ev.val = 1, tags, "complete-false-but-all-sources-determined")
                    \cup F(~c => ev.val = 0, tags, "complete-true-but-not-recoverable")
                    \cup F(s0.everComplete => ev.val = 1, "C10", "complete-reverted")
                    \cup ClaimStable(s0, ev)
                    \cup Common(ev) ]

EntryOK(s0, e, i) ==
    /\ e.o \in {"app", "cb", "lib"}
    /\ IF s0.payload = "id" THEN IsUnitPairs(e.v, i) ELSE e.d = 1

DoGetTab(s0, ev) ==
    LET A == Avail(s0)
        T == ev.tab
        nonnull == { i \in Src(s0) : T[i + 1].o # "null" }
        decTag == IF s0.codec = 5 THEN "C16" ELSE IF IsRS(s0) THEN "C01,C02" ELSE IF s0.finished THEN "C01,C03" ELSE "C01"
        availTag == IF IsRS(s0) THEN "C02,C01" ELSE IF s0.codec = 5 THEN "C16"
                    ELSE IF s0.finished THEN "C03,C01" ELSE "C04"
        expectOrigin(i) ==
            IF i \in s0.appHeld THEN {"app"}
            ELSE IF i \in s0.appMaybe THEN {"app", IF i \in s0.viaCb THEN "cb" ELSE "lib"}
            ELSE IF i \in s0.viaCb THEN {"cb"} ELSE {"lib"}
    IN  [ s |-> s0,
          fails |-> F(IsRS(s0) /\ ~s0.done => ev.st # OK /\ nonnull = {}, "C10", "gettab-before-completion")
                    \cup F((~IsRS(s0) \/ s0.done) => ev.st = OK, "C10", "gettab-status")
                    \cup F(\A i \in nonnull : T[i + 1].o # "cb" => EntryOK(s0, T[i + 1], i), decTag, "wrong-source-symbol")
                    \cup F(\A i \in nonnull : T[i + 1].o = "cb" => EntryOK(s0, T[i + 1], i), decTag \o ",C11", "wrong-source-symbol")
                    \cup F(nonnull \subseteq A, availTag, "symbol-available-but-not-derivable")
                    \cup F(A \subseteq nonnull, availTag \o ",C10", "symbol-derivable-but-not-available")
                    \cup F(\A i \in nonnull \cap s0.appHeld : T[i + 1].o = "app", "C10", "received-source-not-same-pointer")
                    \cup F(\A i \in nonnull : T[i + 1].o # "appdup", "C10", "duplicate-buffer-replaced-first-pointer")
                    \cup F(\A i \in (nonnull \cap A) \ s0.appHeld : T[i + 1].o \in expectOrigin(i), "C11", "decoded-symbol-buffer-origin")
                    \cup Common(ev) ]

(* ---- control parameters -------------------------------------------------- *)

(* OF_CTRL_GET_MAX_K (1) / OF_CTRL_GET_MAX_N (2): the advertised limits.  For the Reed-Solomon codecs they *)
(* are the field limits; the GF(2^m) codec knows them once m is set; nothing beyond the 32-bit value is    *)
(* written.  Type 1024 on LDPC is the null-last-symbol claim, validated by PchkTrace (C15).                *)
DoCtrl(s0, ev) ==
    LET want == IF s0.codec = 1 THEN 255
                ELSE IF s0.codec = 2 /\ s0.m \in {4, 8} THEN 2 ^ s0.m - 1
                ELSE -1
    IN  [ s |-> s0,
          fails |-> F(ev.over = 0, "C07", "get-control-parameter-wrote-beyond-its-value")
                    \cup F((ev.type \in {1, 2} /\ want > 0 /\ s0.phase = "configured") => (ev.st = OK /\ ev.val = want),
                           "C09", "advertised-limit-differs-from-field-limit") ]

(* ---- release ------------------------------------------------------------ *)

DoRelease(s0, ev) ==
    [ s |-> [s0 EXCEPT !.phase = "released"],
      fails |-> F(ev.st = OK, "C08", "release-status")
                \cup F(ev.leak = 0, "C08", "leak-after-release")
                \cup F("libfreed" \notin DOMAIN ev \/ ev.libfreed = 0, "C08", "library-freed-a-decoded-source-symbol-owned-by-the-application")
                \cup F(ev.ff = 0, "C08,C07", "lib-freed-foreign-block") ]

(* ---- encoder ------------------------------------------------------------ *)

HaveEq(s0) == Len(s0.H) = s0.n - s0.k      \* the session's equations were observed (pchk_done hook / control block)

(* value the configured code prescribes for repair symbol esi *)
BinRepair(s0, ev) ==
    LET row == s0.H[ev.esi - s0.k + 1]
        val(e) == IF e < s0.k THEN (IF e \in s0.zeroed THEN {} ELSE {e}) ELSE s0.built[e - s0.k + 1]
    IN  XorSeq([ j \in 1 .. Cardinality(row \ {ev.esi}) |-> val(SetToSeq(row \ {ev.esi})[j]) ])

BuiltBefore(s0, esi) ==
    \A e \in s0.H[esi - s0.k + 1] \ {esi} : e < s0.k \/ (Len(s0.built) >= e - s0.k + 1 /\ s0.built[e - s0.k + 1] # {-1})

(* replicated identity payload ("idr"): source i carries a 1 at every position p = i (mod k), so a built   *)
(* symbol must carry the generator row / parity vector in every block of k positions up to the very last  *)
(* byte: this is what exercises the tails of the byte kernels with non-zero data (C13 checks them alone)  *)
BaseVec(s0, v) == { v[i][1] : i \in { j \in DOMAIN v : v[j][1] < s0.k } }
RepBinOK(s0, v, want) == Vec(v) = { p \in 0 .. (s0.npos - 1) : (p % s0.k) \in want }
RepRsOK(s0, ev) ==
    LET m == IF s0.codec = 1 THEN 8 ELSE s0.m
        g == RowFromPairs(ev.v, s0.k)
    IN  /\ IsGeneratorRow(g, s0.k, ev.esi, m)
        /\ \A i \in DOMAIN ev.v : ev.v[i][1] < s0.npos /\ ev.v[i][2] = g[(ev.v[i][1] % s0.k) + 1]
        /\ Len(ev.v) = Cardinality({ p \in 0 .. (s0.npos - 1) : g[(p % s0.k) + 1] # 0 })

(* Reed-Solomon with some source symbols overwritten by zeros (identity payloads elsewhere): the built symbol is  *)
(* the generator row with those coefficients removed, i.e. it is zero there and SOME values at those positions     *)
(* make it the generator row                                                                                       *)
RECURSIVE FillOK(_, _, _, _, _)
FillOK(g, Z, k, esi, m) ==
    IF Z = {} THEN IsGeneratorRow(g, k, esi, m)
    ELSE LET i == CHOOSE x \in Z : TRUE
         IN  \E c \in 0 .. (2 ^ m - 1) : FillOK([g EXCEPT ![i + 1] = c], Z \ {i}, k, esi, m)
RsZeroedOK(s0, ev) ==
    LET m == IF s0.codec = 1 THEN 8 ELSE s0.m
        g == RowFromPairs(ev.v, s0.k)
    IN  /\ \A i \in DOMAIN ev.v : ev.v[i][1] < s0.k
        /\ \A i \in s0.zeroed : g[i + 1] = 0
        /\ FillOK(g, s0.zeroed, s0.k, ev.esi, m)

DoZero(s0, ev) ==
    [ s |-> [s0 EXCEPT !.zeroed = s0.zeroed \cup {ev.i}],
      fails |-> F(s0.phase = "configured" /\ s0.payload = "id" /\ ev.i < s0.k /\ Cardinality(s0.zeroed) < 2, "INFRA", "driver-protocol") ]

DoBuild(s0, ev) ==
    LET idx == ev.esi - s0.k + 1
        has == "v" \in DOMAIN ev
        rep == s0.payload = "idr"
        valueOk ==
            IF ~has THEN s0.payload = "rnd"
            ELSE IF IsBin(s0) THEN ((HaveEq(s0) /\ BuiltBefore(s0, ev.esi)) =>
                                      IF rep THEN RepBinOK(s0, ev.v, BinRepair(s0, ev)) ELSE Vec(ev.v) = BinRepair(s0, ev))
            ELSE IF rep THEN RepRsOK(s0, ev)
            ELSE IF s0.zeroed # {} THEN RsZeroedOK(s0, ev)
            ELSE RsRowOK(s0.codec, s0.m, s0.k, ev.esi, ev.v, s0.len)
        thisVec == IF rep THEN BaseVec(s0, ev.v) ELSE Vec(ev.v)
        b1 == IF has /\ IsBin(s0)
              THEN [ j \in 1 .. (s0.n - s0.k) |-> IF j = idx THEN thisVec
                                                     ELSE IF j <= Len(s0.built) THEN s0.built[j] ELSE {-1} ]
              ELSE s0.built
        tag == IF s0.codec = 5 THEN "C16" ELSE "C06"
    IN  [ s |-> [s0 EXCEPT !.built = b1],
          fails |-> F(s0.phase = "configured" /\ (s0.role = "enc" \/ s0.both), "INFRA", "driver-protocol")
                    \cup F(rep => s0.npos >= s0.k, "INFRA", "driver-replicated-payload-shorter-than-k")
                    \cup F(IsBin(s0) => HaveEq(s0), "INFRA", "no-parity-check-equations-in-trace")
                    \cup ClaimStable(s0, ev)
                    \cup F(ev.st = OK, tag, "build-status")
                    \cup F(ev.st = OK => "o" \in DOMAIN ev /\ ev.o = (IF ev.slot = "null" THEN "lib" ELSE "app"), tag, "build-output-slot")
                    \cup F(ev.st = OK => valueOk, tag, "repair-symbol-not-canonical")
                    \cup F(ev.app_ok = 1, tag \o ",C07", "encoder-modified-source-buffer")
                    \cup F(ev.ff = 0, "C07,C08", "lib-freed-foreign-block") ]

-----------------------------------------------------------------------------

Init == /\ LoadLog
        /\ l = 1
        /\ ses = [ i \in SessIds |-> NoSes ]
        /\ skip = FALSE
        /\ nviol = 0
        /\ xs = XS0
        /\ res = NoRes

Apply(ev, r0, sid) ==
    /\ res' = r0
    /\ IF res'.fails = {}
       THEN /\ ses' = [ses EXCEPT ![sid] = res'.s]
            /\ xs' = LET a0 == Avail(ses[sid])
                         a1 == Avail(res'.s)
                         newdec == IF ev.e \in {"Recv", "SetAvail", "Finish"}
                                   THEN Cardinality((a1 \ a0) \ (res'.s.rcvd \cap Src(res'.s))) ELSE 0
                     IN  [xs EXCEPT !.dec = @ + newdec,
                                    !.finok = @ + (IF ev.e = "Finish" /\ ev.st = OK THEN 1 ELSE 0),
                                    !.finfail = @ + (IF ev.e = "Finish" /\ ev.st # OK THEN 1 ELSE 0),
                                    !.cbn = @ + (IF "cb" \in DOMAIN ev THEN Len(ev.cb) ELSE 0),
                                    !.calls = @ + 1,
                                    !.gettab = @ + (IF ev.e = "GetTab" THEN 1 ELSE 0),
                                    !.build = @ + (IF ev.e = "Build" THEN 1 ELSE 0)]
            /\ UNCHANGED <<skip, nviol>>
       ELSE /\ Report(res'.fails, ev, res'.s)
            /\ skip' = TRUE
            /\ nviol' = nviol + Cardinality(res'.fails)
            /\ UNCHANGED <<ses, xs>>

Step ==
    /\ l <= Len(TraceLog)
    /\ l' = l + 1
    /\ LET ev == TraceLog[l]
       IN  IF ev.e = "Reset"
           THEN /\ ses' = [ i \in SessIds |-> NoSes ]
                /\ skip' = FALSE
                /\ PrintT(<<"XSTAT", ev.x, xs.dec, xs.finok, xs.finfail, xs.cbn, xs.calls, xs.gettab, xs.build, skip>>)
                /\ xs' = XS0
                /\ res' = NoRes
                /\ UNCHANGED nviol
           ELSE IF ev.e = "MemFault"
           THEN /\ PrintT(<<"VMSG", l, ev.x, "C07", "memfault-" \o ev.what \o "-" \o ev.op, ev.codec, ev.args>>)
                /\ nviol' = nviol + 1
                /\ skip' = TRUE
                /\ UNCHANGED <<ses, xs>>
                /\ res' = NoRes
           ELSE IF skip
           THEN UNCHANGED <<ses, skip, nviol, xs>> /\ res' = NoRes
           ELSE LET sid == ev.s
                    s0  == ses[sid]
                IN  CASE ev.e = "Create"    -> Apply(ev, DoCreate(ev), sid)
                      [] ev.e = "SetParams" -> Apply(ev, DoSetParams(s0, ev), sid)
                      [] ev.e = "SetCb"     -> Apply(ev, DoSetCb(s0, ev), sid)
                      [] ev.e = "Recv"      -> Apply(ev, DoRecv(s0, ev, sid), sid)
                      [] ev.e = "SetAvail"  -> Apply(ev, DoSetAvail(s0, ev, sid), sid)
                      [] ev.e = "Finish"    -> Apply(ev, DoFinish(s0, ev, sid), sid)
                      [] ev.e = "Complete"  -> Apply(ev, DoComplete(s0, ev), sid)
                      [] ev.e = "GetTab"    -> Apply(ev, DoGetTab(s0, ev), sid)
                      [] ev.e = "Release"   -> Apply(ev, DoRelease(s0, ev), sid)
                      [] ev.e = "Build"     -> Apply(ev, DoBuild(s0, ev), sid)
                      [] ev.e = "Zero"      -> Apply(ev, DoZero(s0, ev), sid)
                      [] ev.e = "Ctrl"      -> Apply(ev, DoCtrl(s0, ev), sid)
                      [] ev.e = "Expect"    -> Apply(ev, [ s |-> s0, fails |->
                                                   F(Avail(s0) = ToSet(ev.avail) /\ (Complete(s0) <=> ev.complete = 1),
                                                     "INFRA", "model-behaviour-disagrees-with-api-spec") ], sid)
                      [] OTHER              -> UNCHANGED <<ses, skip, nviol, xs>> /\ res' = NoRes

Next == Step

TraceSpec == Init /\ [][Next]_vars

(* every line was consumed: the trace was fully validated *)
TraceConsumed == TLCGet("stats").diameter - 1 = Len(TraceLog)

=============================================================================
