----------------------------- MODULE OpenFecApi -----------------------------
(***************************************************************************)
(* Layer A: the API-level specification of one OpenFEC decoder session.    *)
(* An abstract session is a record; each submission / finish call is a     *)
(* pure function on it, written from the definitions only (peeling closure *)
(* and GF(2) solvability of module GF2 on the session's own equations, the *)
(* MDS threshold for Reed-Solomon), never from a decoder algorithm.        *)
(* ApiTrace.tla validates recorded executions of the real library against  *)
(* these functions; ApiModel.tla model-checks their design-level           *)
(* properties and generates behaviours that are replayed in the library.   *)
(***************************************************************************)
EXTENDS Naturals, Integers, Sequences, FiniteSets, GF2

OK == 0
FAILURE == 1


NoSes == [ phase |-> "none", codec |-> 0, role |-> "none", both |-> FALSE, k |-> 0, n |-> 0, len |-> 0, m |-> 0, npos |-> 0,
           payload |-> "id", H |-> <<>>, claim |-> FALSE, claimed |-> -1, cbMode |-> "none",
           rcvd |-> {}, known |-> {}, done |-> FALSE, finished |-> FALSE, mlok |-> FALSE,
           appHeld |-> {}, appMaybe |-> {}, viaCb |-> {}, cbs |-> {}, built |-> <<>>, zeroed |-> {}, everComplete |-> FALSE ]

Src(s) == 0 .. (s.k - 1)
IsRS(s) == s.codec \in {1, 2}
IsBin(s) == s.codec \in {3, 5}
Pre(s) == IF s.claim THEN {s.n - 1} ELSE {}

(* Source symbols the specification says are available (non-NULL in the table). *)
Avail(s) ==
    IF IsRS(s) THEN (IF s.done THEN Src(s) ELSE {})
    ELSE IF s.mlok THEN Src(s) ELSE s.known \cap Src(s)

Complete(s) == s.phase \in {"configured"} /\ Avail(s) = Src(s) /\ (IsRS(s) => s.done)

WantsBuf(s, i) == s.cbMode \in {"buf", "slab"} \/ (s.cbMode = "mix" /\ i % 2 = 0)      \* "slab": buffers handed out back to back

(* ---- submission ---------------------------------------------------------- *)

RecvNext(s0, esi) ==
    IF IsRS(s0)
    THEN IF s0.done \/ esi \in s0.rcvd THEN s0        \* a duplicate is ignored (it is not a decode trigger either, which only
                                                     \* matters after of_set_available_symbols left >= k symbols undecoded)
         ELSE LET r1 == s0.rcvd \cup {esi}
                  d1 == (Src(s0) \subseteq r1) \/ Cardinality(r1) >= s0.k
              IN  [s0 EXCEPT !.rcvd = r1, !.done = d1,
                             !.appHeld = IF d1 THEN r1 \cap Src(s0) ELSE s0.appHeld]
    ELSE LET r1 == s0.rcvd \cup {esi}
             k1 == IF esi \in s0.known THEN s0.known ELSE PeelClosure(s0.H, s0.known \cup {esi})
         IN  [s0 EXCEPT !.rcvd = r1, !.known = k1,
                        !.appHeld = IF esi < s0.k /\ esi \notin s0.known THEN s0.appHeld \cup {esi} ELSE s0.appHeld]

SetAvailNext(s0, S) ==
    IF IsRS(s0)
    THEN [s0 EXCEPT !.rcvd = S, !.appHeld = S \cap Src(s0)]
    ELSE LET k1 == PeelClosure(s0.H, s0.known \cup S)
             fresh == (S \cap Src(s0)) \ s0.known
             \* every symbol of the table is *received* by this call: a source symbol that was still unknown
             \* before the call must be kept by pointer and must not trigger the callback, whatever the
             \* order in which the implementation walks the table
         IN  [s0 EXCEPT !.rcvd = s0.rcvd \cup S, !.known = k1, !.appHeld = s0.appHeld \cup fresh]

(* ---- finish -------------------------------------------------------------- *)

FinishNext(s0) ==
    IF IsRS(s0)
    THEN IF s0.done THEN [s0 EXCEPT !.finished = TRUE]
         ELSE IF Cardinality(s0.rcvd) >= s0.k
              THEN [s0 EXCEPT !.finished = TRUE, !.done = TRUE, !.appHeld = s0.rcvd \cap Src(s0)]
              ELSE [s0 EXCEPT !.finished = TRUE]
    ELSE LET det == SourceDetermined(s0.H, s0.k, s0.rcvd \cup Pre(s0))
         IN  [s0 EXCEPT !.finished = TRUE, !.mlok = det]

=============================================================================
