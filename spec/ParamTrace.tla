----------------------------- MODULE ParamTrace -----------------------------
(***************************************************************************)
(* C09: validates of_set_fec_parameters statuses against ParamCheck, and   *)
(* the statuses of calls with a corrupted argument (NULL session, ESI out  *)
(* of range, wrong role, NULL table/buffer).  Whether an accepted session  *)
(* then works is validated on the same trace by ApiTrace.                  *)
(***************************************************************************)
EXTENDS Naturals, Integers, Sequences, FiniteSets, TLC, Json, IOUtils, ParamCheck

TraceLog == TLCGet(7)
LoadLog == TLCSet(7, ndJsonDeserialize(IOEnv.TRACE))

VARIABLES l, adv      \* adv: session -> <<maxk, maxn>> reported at creation
vars == <<l, adv>>

OK == 0
Msg(ev, name, ctx) == PrintT(<<"VMSG", l, ev.x, "C09", name, ev.codec, ctx>>)

\* statuses a corrupted call must not return: OK.  of_is_decoding_complete has no status: it must answer false.
MisuseOK(ev) ==
    IF ev.kind \in {"null_complete", "role_complete"} THEN ev.bval = 0
    ELSE ev.st # OK

ParamsLine(ev) ==
    LET a == adv[ev.s]
        inl == InLimits(ev.codec, ev.kw, ev.rw, ev.lw, ev.m, ev.N1, ev.seed, a[1], a[2])
        ctx == WhichLimit(ev.codec, ev.kw, ev.rw, ev.lw, ev.m, ev.N1, ev.seed, a[1], a[2])
    IN  /\ IF inl => ev.st = OK THEN TRUE ELSE Msg(ev, "params-in-limits-rejected", ctx)
        /\ IF ~inl => ev.st # OK THEN TRUE ELSE Msg(ev, "params-accepted-with-" \o ctx, ctx)

Init == LoadLog /\ l = 1 /\ adv = [ s \in 0 .. 15 |-> <<0, 0>> ]

Next ==
    /\ l <= Len(TraceLog)
    /\ l' = l + 1
    /\ LET ev == TraceLog[l]
       IN  CASE ev.e = "Create" /\ "maxk" \in DOMAIN ev ->
                    adv' = [adv EXCEPT ![ev.s] = <<ev.maxk, ev.maxn>>]
             [] ev.e = "SetParams" -> ParamsLine(ev) /\ UNCHANGED adv
             [] ev.e = "Misuse" ->
                    /\ IF MisuseOK(ev) THEN TRUE ELSE PrintT(<<"VMSG", l, ev.x, "C09", "corrupted-call-accepted-" \o ev.kind, 0, "misuse">>)
                    /\ UNCHANGED adv
             [] ev.e = "MemFault" ->
                    /\ PrintT(<<"VMSG", l, ev.x, "C09", "memfault-" \o ev.what \o "-" \o ev.op, ev.codec, ev.args>>)
                    /\ UNCHANGED adv
             [] OTHER -> UNCHANGED adv

TraceSpec == Init /\ [][Next]_vars
TraceConsumed == TLCGet("stats").diameter - 1 = Len(TraceLog)
=============================================================================
