----------------------------- MODULE TableTrace -----------------------------
(***************************************************************************)
(* C14: every entry of the Galois-field tables of the two Reed-Solomon     *)
(* codecs is compared with arithmetic in GF(2)[x]/(x^4+x+1) resp.          *)
(* GF(2)[x]/(x^8+x^4+x^3+x^2+1), generator x, as defined in GF2m.tla from  *)
(* the primitive polynomials only.                                         *)
(*                                                                         *)
(* Trace (harness/dump_tables.c), one record per table row:                *)
(*   {"e":"Tab","t":name,"row":r,"rows":R,"n":N,"v":[N numbers]}           *)
(*   R, N come from sizeof in the C program; the last record is {"e":"End"}*)
(*                                                                         *)
(* What a table has to contain (index conventions as documented in the C   *)
(* sources, mathematics from GF2m.tla):                                    *)
(*   log  one row, index = field element a.  a >= 1: v[a] = log_x(a).      *)
(*        log 0 is not defined mathematically; of_generate_gf documents    *)
(*        "log(0) is not defined, so use a special value" = GF_SIZE =      *)
(*        2^m - 1 and both static tables use the same value, so this is    *)
(*        what is checked for index 0.  Entries with index >= 2^m are not  *)
(*        indexed by a field element: the property says nothing about      *)
(*        them, they are reported as DRIFT only.                           *)
(*   exp  one row, index = exponent i; EVERY entry present must be x^i     *)
(*        (the codec-1 table is documented as doubled, 2*GF_SIZE entries,  *)
(*        the static ones have 2^m entries, the last being x^(2^m-1) = 1); *)
(*        at least the exponents 0 .. 2^m-2 must be present.               *)
(*   inv  one row, index = field element.  a >= 1: a * v[a] = 1 (checked   *)
(*        with the DEFINITION of the product).  inv 0 does not exist;      *)
(*        of_generate_gf sets and documents 0, the static tables too.      *)
(*   mul  2^m rows of 2^m entries, v[a][b] = a * b  (MulDef)               *)
(*   opt  16 rows of 256 entries, two GF(2^4) elements per byte:           *)
(*        v[c][16a+b] = 16 (c*a) + (c*b)                                   *)
(*                                                                         *)
(* Besides, on the rows of the two static "mul" tables and on the "inv"    *)
(* rows TLC checks the lemmas that justify the derived fast operators of   *)
(* GF2m.tla (used by Kernels.tla and the RS modules): for every pair       *)
(* Mul(a,b,m) = MulDef(a,b,m), and MulDef(a, Inv(a,m), m) = 1.             *)
(* A failing lemma is tagged SPEC (the specification is inconsistent, no   *)
(* verdict on the code).                                                   *)
(*                                                                         *)
(* IOEnv.MODE: "rows"  check the entries of every record of this file      *)
(*             "cover" check only that the file holds every row of every   *)
(*                     table exactly once (the row checks run in parallel  *)
(*                     on pieces of the same file)                         *)
(*             "full"  both                                                *)
(***************************************************************************)
EXTENDS Naturals, Integers, Sequences, FiniteSets, TLC, Json, IOUtils, SequencesExt, FiniteSetsExt, GF2m

TraceLog == TLCGet(7)
LoadLog == TLCSet(7, ndJsonDeserialize(IOEnv.TRACE))
Mode == IOEnv.MODE

VARIABLES l, seen
vars == <<l, seen>>

(* name |-> <<m, kind>> *)
TableDesc ==
    [ gf24_log |-> <<4, "log">>, gf24_exp |-> <<4, "exp">>, gf24_inv |-> <<4, "inv">>,
      gf24_mul |-> <<4, "mul">>, gf24_opt |-> <<4, "opt">>,
      gf28_log |-> <<8, "log">>, gf28_exp |-> <<8, "exp">>, gf28_inv |-> <<8, "inv">>,
      gf28_mul |-> <<8, "mul">>,
      rs_log   |-> <<8, "log">>, rs_exp   |-> <<8, "exp">>, rs_inv   |-> <<8, "inv">>,
      rs_mul   |-> <<8, "mul">>,
      \* the same tables after a second of_rs_init() (generation must be idempotent)
      rs2_log  |-> <<8, "log">>, rs2_exp  |-> <<8, "exp">>, rs2_inv  |-> <<8, "inv">>,
      rs2_mul  |-> <<8, "mul">> ]

Rows(t) == LET d == TableDesc[t] IN IF d[2] = "mul" THEN Order(d[1]) ELSE IF d[2] = "opt" THEN 16 ELSE 1

Expected == UNION { { <<t, r>> : r \in 0 .. (Rows(t) - 1) } : t \in DOMAIN TableDesc }

Msg(ev, tag, name, ctx) == PrintT(<<"VMSG", l, 0, tag, name, 0, ctx>>)
Str(i) == ToString(i)

(* first index (0-based) at which the observed row differs from the expected function, or -1 *)
FirstBad(v, lo, hi, want(_)) ==
    LET bad == { i \in lo .. hi : v[i + 1] # want(i) } IN IF bad = {} THEN -1 ELSE Min(bad)

Report(ev, name, v, lo, hi, want(_)) ==
    LET b == FirstBad(v, lo, hi, want)
    IN  IF b = -1 THEN TRUE
        ELSE Msg(ev, "C14", name, ev.t \o "[" \o (IF Rows(ev.t) > 1 THEN Str(ev.row) \o "][" ELSE "") \o Str(b) \o "]="
                                  \o Str(v[b + 1]) \o " expected " \o Str(want(b)))

CheckLog(ev, m) ==
    /\ IF ev.n >= Order(m) THEN TRUE ELSE Msg(ev, "C14", "table-too-short", ev.t \o " n=" \o Str(ev.n))
    /\ IF ev.n <= Order(m) THEN TRUE ELSE PrintT(<<"DRIFT", l, ev.t, "entries beyond the field, n=", ev.n>>)
    /\ IF ev.n >= Order(m)
       THEN /\ Report(ev, "log-entry-differs", ev.v, 1, NN(m), LAMBDA a : GLog(a, m))
            /\ Report(ev, "log0-convention-differs", ev.v, 0, 0, LAMBDA a : NN(m))
       ELSE TRUE

CheckExp(ev, m) ==
    /\ IF ev.n >= NN(m) THEN TRUE ELSE Msg(ev, "C14", "table-too-short", ev.t \o " n=" \o Str(ev.n))
    /\ Report(ev, "exp-entry-differs", ev.v, 0, ev.n - 1, LAMBDA i : GExp(i, m))

CheckInv(ev, m) ==
    /\ IF ev.n >= Order(m) THEN TRUE ELSE Msg(ev, "C14", "table-too-short", ev.t \o " n=" \o Str(ev.n))
    /\ IF ev.n <= Order(m) THEN TRUE ELSE PrintT(<<"DRIFT", l, ev.t, "entries beyond the field, n=", ev.n>>)
    /\ IF ev.n >= Order(m)
       THEN LET bad == { a \in 1 .. NN(m) : ~ (ev.v[a + 1] \in 0 .. NN(m) /\ MulDef(a, ev.v[a + 1], m) = 1) }
            IN  /\ IF bad = {} THEN TRUE
                   ELSE Msg(ev, "C14", "inv-entry-differs", ev.t \o "[" \o Str(Min(bad)) \o "]=" \o Str(ev.v[Min(bad) + 1])
                                                            \o " is not the inverse")
                /\ Report(ev, "inv0-convention-differs", ev.v, 0, 0, LAMBDA a : 0)
       ELSE TRUE
    /\ IF ev.t \in {"gf24_inv", "gf28_inv"}
       THEN IF \A a \in 1 .. NN(m) : MulDef(a, Inv(a, m), m) = 1 THEN TRUE ELSE Msg(ev, "SPEC", "lemma-Inv", Str(m))
       ELSE TRUE

CheckMul(ev, m) ==
    LET a == ev.row
        D == [ b \in 0 .. NN(m) |-> MulDef(a, b, m) ]
    IN  /\ IF ev.n = Order(m) THEN TRUE ELSE Msg(ev, "C14", "row-length-differs", ev.t \o " n=" \o Str(ev.n))
        /\ IF ev.n >= Order(m) THEN Report(ev, "mul-entry-differs", ev.v, 0, NN(m), LAMBDA b : D[b]) ELSE TRUE
        /\ IF ev.t \in {"gf24_mul", "gf28_mul"}
           THEN IF \A b \in 0 .. NN(m) : Mul(a, b, m) = D[b] /\ Mul(b, a, m) = D[b] THEN TRUE
                ELSE Msg(ev, "SPEC", "lemma-Mul-eq-MulDef", Str(m) \o "," \o Str(a))
           ELSE TRUE

CheckOpt(ev) ==
    LET c == ev.row
        D == [ b \in 0 .. 15 |-> MulDef(c, b, 4) ]
    IN  /\ IF ev.n = 256 THEN TRUE ELSE Msg(ev, "C14", "row-length-differs", ev.t \o " n=" \o Str(ev.n))
        /\ IF ev.n >= 256
           THEN Report(ev, "packed-entry-differs", ev.v, 0, 255, LAMBDA x : 16 * D[x \div 16] + D[x % 16])
           ELSE TRUE

CheckRow(ev) ==
    LET d == TableDesc[ev.t]  m == d[1]  kind == d[2]
    IN  /\ IF ev.rows = Rows(ev.t) /\ ev.row \in 0 .. (Rows(ev.t) - 1) /\ ev.n = Len(ev.v) THEN TRUE
           ELSE Msg(ev, "C14", "table-shape-differs", ev.t \o " rows=" \o Str(ev.rows) \o " row=" \o Str(ev.row))
        /\ IF ev.row \in 0 .. (Rows(ev.t) - 1) /\ ev.n = Len(ev.v)
           THEN CASE kind = "log" -> CheckLog(ev, m)
                  [] kind = "exp" -> CheckExp(ev, m)
                  [] kind = "inv" -> CheckInv(ev, m)
                  [] kind = "mul" -> CheckMul(ev, m)
                  [] kind = "opt" -> CheckOpt(ev)
           ELSE TRUE

Cover(ev) ==
    IF ev.e = "End"
    THEN /\ IF seen = Expected THEN PrintT(<<"COVER", "complete", Cardinality(seen)>>)
            ELSE Msg(ev, "INFRA", "tables-missing-or-unknown",
                     ToString(IF Expected \ seen # {} THEN CHOOSE x \in Expected \ seen : TRUE ELSE CHOOSE x \in seen \ Expected : TRUE))
         /\ UNCHANGED seen
    ELSE /\ IF <<ev.t, ev.row>> \notin seen THEN TRUE ELSE Msg(ev, "INFRA", "row-dumped-twice", ev.t)
         /\ seen' = seen \cup {<<ev.t, ev.row>>}

Init == LoadLog /\ l = 1 /\ seen = {}

Next ==
    /\ l <= Len(TraceLog)
    /\ l' = l + 1
    /\ LET ev == TraceLog[l]
       IN  /\ IF ev.e = "Tab" /\ Mode \in {"rows", "full"}
              THEN IF ev.t \in DOMAIN TableDesc THEN CheckRow(ev) = TRUE ELSE Msg(ev, "INFRA", "unknown-table", ev.t)
              ELSE TRUE
           /\ IF Mode \in {"cover", "full"} THEN Cover(ev) ELSE UNCHANGED seen

TraceSpec == Init /\ [][Next]_vars
TraceConsumed == TLCGet("stats").diameter - 1 = Len(TraceLog)
=============================================================================
