--------------------------- MODULE PchkDrawTrace ---------------------------
(***************************************************************************)
(* Draw-level binding of the LDPC-Staircase matrix construction to         *)
(* RFC 5170 for parameters far beyond what the full construction           *)
(* (PchkRfc5170) can be re-evaluated for (k up to 50 000): every event of  *)
(* the real construction is validated in sequence with O(1) model state -  *)
(*   ps  seeding            state' = Seed(state, seed)                     *)
(*   pr  one PRNG call      new state = PMNext(state); the value it        *)
(*                          returns must be Scale(new state, maxv)         *)
(*   pd  the drawn index    equals  t + value  with  maxv = N1*k - t  in   *)
(*                          the homogeneous phase, value with maxv = n-k   *)
(*                          in the "no choice left" phase, (n-k) + value   *)
(*                          with maxv = k in the two completion phases     *)
(*   pi  an insertion       advances the left limit t in the first phase   *)
(* so a deviation of the generator, of its scaling, of the range argument  *)
(* or of the list bookkeeping is caught at the first event where it shows. *)
(***************************************************************************)
EXTENDS Naturals, Integers, Sequences, TLC, Json, IOUtils, ParkMiller

TraceLog == TLCGet(7)
LoadLog == TLCSet(7, ndJsonDeserialize(IOEnv.TRACE))

VARIABLES l, prng, t, pend, par, bad, ndraw
vars == <<l, prng, t, pend, par, bad, ndraw>>

Init == LoadLog /\ l = 1 /\ prng = 0 /\ t = 0 /\ pend = <<-1, -1>> /\ par = [k |-> 0, r |-> 0, N1 |-> 0] /\ bad = FALSE /\ ndraw = 0

\* internal events only: a mismatch means the transcription of the construction no longer describes the
\* code (DRIFT); whether the equations are the RFC 5170 ones is judged on the matrix itself (PchkTrace)
Msg(name) == PrintT(<<"DRIFT", l, ndraw, name>>)

Next ==
    /\ l <= Len(TraceLog)
    /\ l' = l + 1
    /\ LET ev == TraceLog[l]
       IN  CASE ev.e = "pb" ->
                    /\ par' = [k |-> ev.k, r |-> ev.r, N1 |-> ev.N1] /\ t' = 0 /\ pend' = <<-1, -1>> /\ bad' = FALSE
                    /\ UNCHANGED <<prng, ndraw>>
             [] ev.e = "ps" ->
                    /\ prng' = IF ev.hi = 0 THEN Seed(prng, ev.lo) ELSE prng
                    /\ UNCHANGED <<t, pend, par, bad, ndraw>>
             [] ev.e = "pr" /\ ~bad ->
                    LET s1 == PMNext(prng)
                    IN  /\ IF ValidState(prng) /\ ev.s = s1 THEN bad' = FALSE ELSE Msg("prng-step-differs-from-park-miller") /\ bad' = TRUE
                        /\ prng' = ev.s
                        /\ pend' = <<Scale(s1, ev.mv), ev.mv>>
                        /\ UNCHANGED <<t, par, ndraw>>
             [] ev.e = "pd" /\ ~bad ->
                    LET L == par.N1 * par.k
                        ok == CASE ev.p = 0 -> pend[2] = L - t /\ ev.i = t + pend[1] /\ ev.b = t
                                [] ev.p = 1 -> pend[2] = par.r /\ ev.i = pend[1]
                                [] OTHER    -> pend[2] = par.k /\ ev.i = pend[1] + par.r
                    IN  /\ IF ok THEN bad' = FALSE ELSE Msg("drawn-index-differs-from-rfc5170") /\ bad' = TRUE
                        /\ ndraw' = ndraw + 1
                        /\ UNCHANGED <<prng, t, pend, par>>
             [] ev.e = "pi" /\ ~bad ->
                    /\ t' = IF ev.p = 0 THEN t + 1 ELSE t
                    /\ UNCHANGED <<prng, pend, par, bad, ndraw>>
             [] OTHER -> UNCHANGED <<prng, t, pend, par, bad, ndraw>>
    /\ IF l = Len(TraceLog) THEN PrintT(<<"DSTAT", ndraw'>>) ELSE TRUE

TraceSpec == Init /\ [][Next]_vars
TraceConsumed == TLCGet("stats").diameter - 1 = Len(TraceLog)
=============================================================================
