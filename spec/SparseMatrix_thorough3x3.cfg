INIT Init
NEXT Next
CONSTANTS
  BlockSize = 2
  ResetFreeOnClear = TRUE
  Dims <- DimsMedium
  NSparse = 2
  NDense = 1
  MaxDepth = 6
INVARIANTS TypeOK Abstraction Traversals FindIsMember NoDangling Conservation FreedIsEmpty DenseTypeOK
CHECK_DEADLOCK FALSE
