#!/bin/sh
# Offline setup: nothing is downloaded. Checks that the tools are present and that every
# specification parses; the library and drivers are rebuilt by each check from /repo.
set -e
cd "$(dirname "$0")"
command -v java >/dev/null
command -v clang >/dev/null
test -f /opt/veriftools/tla/tla2tools.jar
mkdir -p build evidence replays
fail=0
cd spec
for f in *.tla; do
  if ! java -cp /opt/veriftools/tla/tla2tools.jar:/opt/veriftools/tla/CommunityModules-deps.jar tla2sany.SANY "$f" >../build/sany.log 2>&1; then
    echo "SANY failed on $f"; tail -20 ../build/sany.log; fail=1
  fi
done
exit $fail
