/*
 * of_driver - executes behaviour files against the real OpenFEC library and
 * records, for every public API call, an ndjson trace line with the API-visible
 * observations (status, completion, decoded coefficient vectors, pointer
 * classes, callback log, allocation ledger, integrity of application buffers).
 *
 * The trace is validated by TLC against /verif/spec/ApiTrace.tla; this program
 * contains no oracle: it only generates inputs and projects observations.
 *
 * usage: of_driver <behaviour.txt> <trace.ndjson>
 *
 * Behaviour commands (one per line, '#' comments):
 *   reset
 *   create S CODEC ROLE                 CODEC in {1,2,3,5}, ROLE in {enc,dec}
 *   params S k r len m N1 seed PAYLOAD [ALIGN]   PAYLOAD in {id,rnd}
 *   rawparams S k r len m N1 seed       (C09: no codeword is prepared)
 *   cb S MODE                           MODE in {buf,null,mix}
 *   build S esi SLOT                    SLOT in {buf,null}
 *   recv S esi
 *   setavail S e1,e2,...|-
 *   finish S | complete S | gettab S | release S
 *   ctrl S type                         (get_control_parameter)
 *   setctrl S type val len              (set_control_parameter, UINT16 value)
 *   srand V                             libc srand
 *   misuse S KIND [arg]                 (C09 argument corruptions)
 */
#define _GNU_SOURCE
#include <stdio.h>
#include <stdlib.h>
#include <string.h>
#include <stdint.h>
#include <stdarg.h>
#include <unistd.h>
#include <signal.h>
#include <fcntl.h>
#include <errno.h>
#include <sys/mman.h>
#include <sys/wait.h>
#if defined(__has_feature)
#if __has_feature(address_sanitizer)
#include <sanitizer/asan_interface.h>
#define HAVE_ASAN_IF 1
#endif
#endif
#ifndef HAVE_ASAN_IF
#define ASAN_POISON_MEMORY_REGION(a, n) ((void)(a), (void)(n))
#define ASAN_UNPOISON_MEMORY_REGION(a, n) ((void)(a), (void)(n))
#endif

#include "lib_common/of_openfec_api.h"
#include "lib_stable/ldpc_staircase/of_ldpc_includes.h"
#include "lib_stable/2d_parity_matrix/of_2d_parity_includes.h"

extern UINT64 of_seed;

/* ------------------------------------------------------------------ ledger */

void *__real_malloc(size_t);
void *__real_calloc(size_t, size_t);
void *__real_realloc(void *, size_t);
void  __real_free(void *);

typedef struct { void *p; size_t sz; int ses; } blk_t;
static blk_t   *g_blk;
static size_t   g_nblk, g_capblk;
static int      g_in_lib;       /* >0: inside a library call, outside callbacks */
static int      g_cur_ses = -1; /* session the current library call belongs to */
static long     g_foreign_free; /* library freed something it did not allocate */
static long     g_lib_allocs;   /* allocations made by the library during the current call */

static void led_add(void *p, size_t sz)
{
	if (!p) return;
	if (g_nblk == g_capblk) {
		size_t nc = g_capblk ? g_capblk * 2 : 4096;
		blk_t *nb = __real_realloc(g_blk, nc * sizeof(blk_t));
		if (!nb) abort();
		g_blk = nb; g_capblk = nc;
	}
	g_blk[g_nblk].p = p; g_blk[g_nblk].sz = sz; g_blk[g_nblk].ses = g_cur_ses; g_nblk++;
	g_lib_allocs++;
}
static int led_find(void *p)
{
	for (size_t i = g_nblk; i-- > 0;) if (g_blk[i].p == p) return (int)i;
	return -1;
}
static int led_del(void *p)
{
	int i = led_find(p);
	if (i < 0) return 0;
	g_blk[i] = g_blk[g_nblk - 1]; g_nblk--;
	return 1;
}
void *__wrap_malloc(size_t n)
{
	void *p = __real_malloc(n);
	if (g_in_lib > 0) led_add(p, n);
	return p;
}
void *__wrap_calloc(size_t a, size_t b)
{
	void *p = __real_calloc(a, b);
	if (g_in_lib > 0) led_add(p, a * b);
	return p;
}
void *__wrap_realloc(void *o, size_t n)
{
	if (g_in_lib > 0) {
		int known = o ? led_find(o) >= 0 : 1;
		void *p;
		if (o && !known) g_foreign_free++;
		if (o) led_del(o);
		p = __real_realloc(o, n);
		led_add(p, n);
		return p;
	} else {
		if (o) led_del(o);
		return __real_realloc(o, n);
	}
}
void __wrap_free(void *p)
{
	if (p) {
		int was = led_del(p);
		if (g_in_lib > 0 && !was) g_foreign_free++;
	}
	__real_free(p);
}

/* ------------------------------------------------------------- trace output */

static int   g_trfd = -1;
static char *g_jb; static size_t g_jn, g_jc;
static void jb_reset(void) { g_jn = 0; }
static void jb_printf(const char *fmt, ...)
{
	va_list ap;
	for (;;) {
		va_start(ap, fmt);
		int w = vsnprintf(g_jb + g_jn, g_jc - g_jn, fmt, ap);
		va_end(ap);
		if (w < 0) abort();
		if ((size_t)w < g_jc - g_jn) { g_jn += w; return; }
		g_jc = (g_jc + w + 1) * 2;
		g_jb = __real_realloc(g_jb, g_jc);
		if (!g_jb) abort();
	}
}
static void jb_flush(void)
{
	size_t off = 0;
	while (off < g_jn) {
		ssize_t w = write(g_trfd, g_jb + off, g_jn - off);
		if (w <= 0) { if (errno == EINTR) continue; _exit(3); }
		off += w;
	}
	g_jn = 0;
}

/* --------------------------------------------------------------- rng (own) */
static uint64_t g_rng = 88172645463325252ULL;
static uint32_t rnd32(void) { g_rng ^= g_rng << 13; g_rng ^= g_rng >> 7; g_rng ^= g_rng << 17; return (uint32_t)(g_rng >> 16); }

/* ----------------------------------------------------------------- sessions */

#define MAXS 16
#define MAXCB 4096
typedef struct {
	int used, codec, role;             /* role: 1 enc, 2 dec */
	int both;                          /* created as OF_ENCODER_AND_DECODER; "role" is how the driver prepared it */
	of_session_t *ses;
	int configured, released;
	uint32_t k, r, n, len, m, N1; int32_t seed;
	int payload;                       /* 0 id, 1 rnd, 2 idr (identity replicated over the whole symbol) */
	int align;
	unsigned char **raw;               /* n raw blocks (guarded) */
	unsigned char **cw;                /* n codeword buffers inside raw (application buffers) */
	unsigned char **orig;              /* n pristine copies */
	int *have;                         /* cw[i] holds a valid symbol (enc: built) */
	unsigned char **dupbuf;            /* second buffer with the same content, used when an ESI is submitted again */
	int *nsub;                         /* how many times ESI i was submitted through decode_with_new_symbol */
	void **enc_tab;                    /* encoder: table handed to build_repair_symbol */
	int *enc_libslot;                  /* encoder: slot was allocated by the library */
	int cbmode;                        /* 0 none,1 buf,2 null,3 mix,4 slab (buffers handed out back to back from one block) */
	unsigned char *slab; size_t slab_used, slab_cap;
	void *pool[MAXCB]; int pool_esi[MAXCB]; int npool;
	int **H; int *Hn; int nH;          /* rows as lists of ESIs */
	void **lasttab;                    /* last table returned by get_source_symbols_tab */
	int lasttab_valid; int ngettab; int seen_complete;
} dses_t;
static dses_t S[MAXS];
static long g_exec;
static char g_curop[32] = "none"; static char g_curargs[160] = ""; static int g_curcodec;
static volatile long *g_progress;     /* shared with parent */

/* per-call callback log */
static struct { int esi; unsigned size; int ret; int ses; int own; } g_cbl[MAXCB];
static int g_ncbl;
/* "oncb S N": the next N command lines (other sessions) are executed from inside the next decoded-source-symbol
 * callback of session S (re-entrant use of the library); if no callback fires they run when the next command
 * of another session, the release of S or the end of the execution comes up.  Per-session order never changes. */
#define MAXDEFER 64
static char *g_defer[MAXDEFER]; static int g_ndefer, g_defer_take, g_defer_ses = -1, g_defer_nested;
static void run_line(char *line);
static void flush_deferred(void)
{
	if (g_defer_ses < 0) return;
	char *loc[MAXDEFER]; int n = g_ndefer;
	memcpy(loc, g_defer, sizeof loc);
	g_defer_ses = -1; g_ndefer = 0; g_defer_take = 0;
	for (int i = 0; i < n; i++) { run_line(loc[i]); free(loc[i]); }
}
/* H captured by the pchk_done hook */
static int **g_hookH; static int *g_hookHn; static int g_hooknH; static int g_hook_have;
static long g_hook_seed_events;

static void free_H(int **H, int *Hn, int nH)
{
	if (!H) return;
	for (int i = 0; i < nH; i++) free(H[i]);
	free(H); free(Hn);
}
static void capture_H(const of_mod2sparse *m, uint32_t k, uint32_t r, int ***pH, int **pHn, int *pnH)
{
	int nr = of_mod2sparse_rows(m);
	int **H = calloc(nr, sizeof(int *)); int *Hn = calloc(nr, sizeof(int));
	for (int i = 0; i < nr; i++) {
		int cnt = 0; of_mod2entry *e;
		for (e = of_mod2sparse_first_in_row(m, i); !of_mod2sparse_at_end(e); e = of_mod2sparse_next_in_row(e)) cnt++;
		H[i] = calloc(cnt ? cnt : 1, sizeof(int)); Hn[i] = cnt; cnt = 0;
		for (e = of_mod2sparse_first_in_row(m, i); !of_mod2sparse_at_end(e); e = of_mod2sparse_next_in_row(e)) {
			int col = e->col;
			H[i][cnt++] = (col < (int)r) ? col + (int)k : col - (int)r;
		}
	}
	*pH = H; *pHn = Hn; *pnH = nr;
}

static int g_hook_k_r_valid; static uint32_t g_hook_k, g_hook_r;
/* ML decoding events of the current call (layer-B binding of LdpcMl; diagnosis only) */
#define MAXML 256
static int g_ml_perm[MAXML], g_ml_nperm, g_ml_piv[MAXML], g_ml_npiv, g_ml_simpl[3], g_ml_have_simpl, g_ml_fail;
static int g_pchkev;   /* log every PRNG / construction event of LDPC matrix constructions (C05 draw-level binding) */
static void verif_hook(const char *name, const void *obj, long a, long b, long c, long d)
{
	int save = g_in_lib; g_in_lib = 0;
	if (g_pchkev) {
		if (!strcmp(name, "rand")) { jb_printf("{\"e\":\"pr\",\"mv\":%ld,\"s\":%ld}\n", a, b); }
		else if (!strcmp(name, "srand")) { jb_printf("{\"e\":\"ps\",\"hi\":%ld,\"lo\":%ld}\n", (long)(((unsigned long)a) >> 31), (long)(((unsigned long)a) & 0x7FFFFFFF)); }
		else if (!strcmp(name, "pchk_draw")) { jb_printf("{\"e\":\"pd\",\"i\":%ld,\"b\":%ld,\"p\":%ld}\n", a, b, c); }
		else if (!strcmp(name, "pchk_insert")) { jb_printf("{\"e\":\"pi\",\"r\":%ld,\"c\":%ld,\"p\":%ld}\n", a, b, c); }
		if (g_jn > (1 << 16)) jb_flush();
	}
	if (!strcmp(name, "pchk_done")) {
		/* a = nb_rows (r), b = nb_cols (n) */
		free_H(g_hookH, g_hookHn, g_hooknH);
		capture_H((const of_mod2sparse *)obj, (uint32_t)(b - a), (uint32_t)a, &g_hookH, &g_hookHn, &g_hooknH);
		g_hook_have = 1;
	}
	else if (!strcmp(name, "ml_perm")) { if (a >= 0 && a < MAXML) { g_ml_perm[a] = (int)b; if (a + 1 > g_ml_nperm) g_ml_nperm = (int)a + 1; } }
	else if (!strcmp(name, "ml_simplified")) { g_ml_simpl[0] = (int)a; g_ml_simpl[1] = (int)b; g_ml_simpl[2] = (int)c; g_ml_have_simpl = 1; }
	else if (!strcmp(name, "ge_pivot")) { if (g_ml_npiv < MAXML) g_ml_piv[g_ml_npiv++] = (int)b; }
	else if (!strcmp(name, "ge_fail")) { g_ml_fail = (int)a + 1; }
	(void)c; (void)d;
	g_in_lib = save;
}

/* ------------------------------------------------------ payload conventions */

static unsigned positions(const dses_t *s) { return s->codec == 2 && s->m == 4 ? s->len * 2 : (s->codec == 1 || s->codec == 2) ? s->len : s->len * 8; }
static unsigned getpos(const dses_t *s, const unsigned char *b, unsigned p)
{
	if (s->codec == 1 || (s->codec == 2 && s->m != 4)) return b[p];
	if (s->codec == 2) return (p & 1) ? (b[p >> 1] >> 4) : (b[p >> 1] & 0xF);
	return (b[p >> 3] >> (p & 7)) & 1;
}
static void setpos(const dses_t *s, unsigned char *b, unsigned p, unsigned v)
{
	if (s->codec == 1 || (s->codec == 2 && s->m != 4)) b[p] = (unsigned char)v;
	else if (s->codec == 2) { if (p & 1) b[p >> 1] = (b[p >> 1] & 0x0F) | (v << 4); else b[p >> 1] = (b[p >> 1] & 0xF0) | (v & 0xF); }
	else { if (v) b[p >> 3] |= (1u << (p & 7)); else b[p >> 3] &= ~(1u << (p & 7)); }
}
static void emit_vec(const dses_t *s, const unsigned char *b)
{
	unsigned np = positions(s), first = 1;
	jb_printf("[");
	for (unsigned p = 0; p < np; p++) {
		unsigned v = getpos(s, b, p);
		if (v) { jb_printf("%s[%u,%u]", first ? "" : ",", p, v); first = 0; }
	}
	jb_printf("]");
}

/* ------------------------------------------------------------ library calls */

#define LIB_ENTER(sid) do { g_cur_ses = (sid); g_lib_allocs = 0; g_in_lib++; } while (0)
#define LIB_LEAVE()    do { g_in_lib--; } while (0)

/* "it is assumed that the buffers provided ... will be available throughout the decoding process" (of_openfec_api.h):
 * once the application has SEEN decoding complete it may consume and free its symbol buffers and the buffers its
 * callback handed out.  From then on they are off limits during the queries, a further of_finish_decoding and the
 * release (ASan user poisoning around those calls; the driver itself still needs them for its comparisons) */
static void app_buffers_off_limits(dses_t *s, int on)
{
	if (!s->seen_complete || !s->cw || !s->len) return;
	for (uint32_t i = 0; i < s->n; i++) if (s->cw[i]) { if (on) ASAN_POISON_MEMORY_REGION(s->cw[i], s->len); else ASAN_UNPOISON_MEMORY_REGION(s->cw[i], s->len); }
	for (int j = 0; j < s->npool; j++) if (s->pool[j]) { if (on) ASAN_POISON_MEMORY_REGION(s->pool[j], s->len); else ASAN_UNPOISON_MEMORY_REGION(s->pool[j], s->len); }
}

static void *cb_src(void *ctx, UINT32 size, UINT32 esi)
{
	int save = g_in_lib; g_in_lib = 0;
	dses_t *s = (dses_t *)ctx; void *ret = NULL; int kind = 0;
	int mode = s->cbmode;
	if (mode == 4 && s->npool < MAXCB) {
		/* an application that reassembles the object in one big buffer: consecutive callbacks get adjacent memory */
		if (!s->slab) { s->slab_cap = (size_t)(s->k ? s->k : 1) * (size ? size : 1); s->slab = malloc(s->slab_cap); memset(s->slab, 0xA5, s->slab_cap); }
		if (s->slab_used + (size ? size : 1) <= s->slab_cap) {
			ret = s->slab + s->slab_used; s->slab_used += (size ? size : 1);
			s->pool[s->npool] = ret; s->pool_esi[s->npool] = (int)esi; s->npool++;
			kind = 1;
		}
	}
	if (mode == 1 || (mode == 3 && (esi % 2 == 0))) {
		if (s->npool < MAXCB) {
			ret = malloc(size ? size : 1);
			memset(ret, 0xA5, size ? size : 1); /* "left uninitialized" */
			s->pool[s->npool] = ret; s->pool_esi[s->npool] = (int)esi; s->npool++;
			kind = 1;
		}
	}
	if (g_ncbl < MAXCB) { g_cbl[g_ncbl].esi = (int)esi; g_cbl[g_ncbl].size = size; g_cbl[g_ncbl].ret = kind; g_cbl[g_ncbl].ses = (int)(s - S); g_cbl[g_ncbl].own = g_cur_ses; g_ncbl++; }
	if (g_defer_ses == (int)(s - S) && g_ndefer == g_defer_take) {
		/* re-entrant use: the deferred calls on OTHER sessions are made from inside this callback */
		int cs = g_cur_ses; long la = g_lib_allocs; char op[sizeof g_curop], ar[sizeof g_curargs]; int cc = g_curcodec;
		memcpy(op, g_curop, sizeof op); memcpy(ar, g_curargs, sizeof ar);
		g_defer_nested++;
		flush_deferred();
		g_cur_ses = cs; g_lib_allocs = la; g_curcodec = cc;
		memcpy(g_curop, op, sizeof op); memcpy(g_curargs, ar, sizeof ar);
	}
	g_in_lib = save;
	return ret;
}
static void *cb_rep(void *ctx, UINT32 size, UINT32 esi)
{
	(void)ctx; (void)size; (void)esi;
	return NULL;
}

static long live_for(int sid) { long c = 0; for (size_t i = 0; i < g_nblk; i++) if (g_blk[i].ses == sid) c++; return c; }
static long live_bytes_for(int sid) { long c = 0; for (size_t i = 0; i < g_nblk; i++) if (g_blk[i].ses == sid) c += (long)g_blk[i].sz; return c; }

#define GUARD 32
static unsigned char *alloc_app(dses_t *s, unsigned char **raw)
{
	/* the buffer always ENDS where its heap block ends, so that ASan's red zone sits at byte len whatever the
	 * alignment (a read or a value-preserving read-modify-write past the end leaves guard bytes intact); in front of a
	 * misaligned buffer there are manual guard bytes (an application's packet header) */
	if (s->align == 0) { *raw = malloc(s->len ? s->len : 1); return *raw; }
	size_t front = GUARD + (s->align & 7);
	*raw = malloc(front + (s->len ? s->len : 1));
	memset(*raw, 0x5C, front);
	return *raw + front;
}
static int guards_ok(dses_t *s, int i)
{
	if (s->align == 0) return 1;
	unsigned char *raw = s->raw[i], *b = s->cw[i];
	for (unsigned char *p = raw; p < b; p++) if (*p != 0x5C) return 0;
	return 1;
}
static int app_ok(dses_t *s)
{
	if (!s->cw) return 1;
	for (uint32_t i = 0; i < s->n; i++) {
		if (!s->cw[i]) continue;
		if (!guards_ok(s, i)) return 0;
		if (s->have[i] && memcmp(s->cw[i], s->orig[i], s->len)) return 0;
		if (s->dupbuf && s->dupbuf[i] && memcmp(s->dupbuf[i], s->orig[i], s->len)) return 0;
	}
	return 1;
}


/* internal projection of the IT decoder state (layer-B binding; diagnosis only) */
static int g_itproj;
static void emit_itproj(dses_t *s)
{
	if (!g_itproj || s->codec != 3 || s->role != 2 || !s->configured || (int)s->n > g_itproj || s->payload) return;
#ifndef OF_DRIVER_NO_INTERNALS      /* built without it when the control block no longer has these fields (vlib.build_driver) */
	of_linear_binary_code_cb_t *cb = (of_linear_binary_code_cb_t *)s->ses;
	if (!cb->pchk_matrix || !cb->tab_nb_unknown_symbols) return;
	jb_printf(",\"it\":{\"unk\":[");
	for (uint32_t i = 0; i < s->r; i++) jb_printf("%s%u", i ? "," : "", (unsigned)cb->tab_nb_unknown_symbols[i]);
	jb_printf("],\"deg\":[");
	for (uint32_t i = 0; i < s->r; i++) jb_printf("%s%u", i ? "," : "", (unsigned)cb->tab_nb_enc_symbols_per_equ[i]);
	jb_printf("],\"ct\":[");
	for (uint32_t i = 0; i < s->r; i++) jb_printf("%s%d", i ? "," : "", cb->tab_const_term_of_equ[i] != NULL);
	jb_printf("],\"rows\":[");
	for (uint32_t i = 0; i < s->r; i++) {
		of_mod2entry *e; int first = 1;
		jb_printf("%s[", i ? "," : "");
		for (e = of_mod2sparse_first_in_row(cb->pchk_matrix, i); !of_mod2sparse_at_end(e); e = of_mod2sparse_next_in_row(e)) {
			int col = e->col;
			jb_printf("%s%d", first ? "" : ",", (col < (int)s->r) ? col + (int)s->k : col - (int)s->r); first = 0;
		}
		jb_printf("]");
	}
	jb_printf("],\"known\":[");
	{ int first = 1; for (uint32_t i = 0; i < s->n; i++) if (cb->encoding_symbols_tab[i]) { jb_printf("%s%u", first ? "" : ",", i); first = 0; } }
	jb_printf("],\"nrep\":%u}", (unsigned)cb->nb_repair_symbol_ready);
#endif
}

static void emit_common(dses_t *s, int sid, int st)
{
	jb_printf(",\"st\":%d,\"cb\":[", st);
	/* callbacks that fired during this session's library call (with re-entrant use, the calls nested in a
	 * callback print their own) */
	int keep = 0, first = 1;
	for (int i = 0; i < g_ncbl; i++) {
		if (g_cbl[i].own == sid) { jb_printf("%s[%d,%u,%d,%d]", first ? "" : ",", g_cbl[i].esi, g_cbl[i].size, g_cbl[i].ret, g_cbl[i].ses); first = 0; }
		else g_cbl[keep++] = g_cbl[i];
	}
	jb_printf("],\"app_ok\":%d,\"ff\":%ld,\"live\":%ld", s ? app_ok(s) : 1, g_foreign_free, live_for(sid));
	g_ncbl = keep;
}

static void sess_free_buffers(dses_t *s)
{
	if (s->raw) { for (uint32_t i = 0; i < s->n; i++) free(s->raw[i]); free(s->raw); }
	if (s->orig) { for (uint32_t i = 0; i < s->n; i++) free(s->orig[i]); free(s->orig); }
	if (s->dupbuf) { for (uint32_t i = 0; i < s->n; i++) free(s->dupbuf[i]); free(s->dupbuf); }
	free(s->nsub);
	free(s->cw); free(s->have); free(s->enc_tab); free(s->enc_libslot); free(s->lasttab);
	for (int i = 0; i < s->npool; i++) if (!s->slab || (unsigned char *)s->pool[i] < s->slab || (unsigned char *)s->pool[i] >= s->slab + s->slab_cap) free(s->pool[i]);
	free(s->slab);
	free_H(s->H, s->Hn, s->nH);
	memset(s, 0, sizeof(*s));
}

static of_status_t set_params_raw(dses_t *s, int sid, uint32_t k, uint32_t r, uint32_t len, uint32_t m, uint32_t N1, int32_t seed)
{
	of_status_t st;
	LIB_ENTER(sid);
	if (s->codec == 3) {
		of_ldpc_parameters_t p; memset(&p, 0, sizeof p);
		p.nb_source_symbols = k; p.nb_repair_symbols = r; p.encoding_symbol_length = len; p.prng_seed = seed; p.N1 = (UINT8)N1;
		st = of_set_fec_parameters(s->ses, (of_parameters_t *)&p);
	} else if (s->codec == 2) {
		of_rs_2_m_parameters_t p; memset(&p, 0, sizeof p);
		p.nb_source_symbols = k; p.nb_repair_symbols = r; p.encoding_symbol_length = len; p.m = (UINT16)m;
		st = of_set_fec_parameters(s->ses, (of_parameters_t *)&p);
	} else if (s->codec == 5) {
		of_2d_parity_parameters_t p; memset(&p, 0, sizeof p);
		p.nb_source_symbols = k; p.nb_repair_symbols = r; p.encoding_symbol_length = len;
		st = of_set_fec_parameters(s->ses, (of_parameters_t *)&p);
	} else {
		of_rs_parameters_t p; memset(&p, 0, sizeof p);
		p.nb_source_symbols = k; p.nb_repair_symbols = r; p.encoding_symbol_length = len;
		st = of_set_fec_parameters(s->ses, (of_parameters_t *)&p);
	}
	LIB_LEAVE();
	return st;
}

/* codeword for a binary code from its parity-check rows: every row has exactly
 * one repair symbol that is not determined by earlier rows (staircase / 2D) */
static int fill_codeword_binary(dses_t *s)
{
	int *done = calloc(s->n, sizeof(int)); int progress = 1, remaining = (int)s->r;
	for (uint32_t i = 0; i < s->k; i++) done[i] = 1;
	while (remaining > 0 && progress) {
		progress = 0;
		for (int row = 0; row < s->nH; row++) {
			int unk = -1, cnt = 0;
			for (int j = 0; j < s->Hn[row]; j++) if (!done[s->H[row][j]]) { unk = s->H[row][j]; cnt++; }
			if (cnt != 1) continue;
			memset(s->cw[unk], 0, s->len);
			for (int j = 0; j < s->Hn[row]; j++) {
				int e = s->H[row][j]; if (e == unk) continue;
				for (uint32_t b = 0; b < s->len; b++) s->cw[unk][b] ^= s->cw[e][b];
			}
			done[unk] = 1; remaining--; progress = 1;
		}
	}
	free(done);
	return remaining == 0;
}

/* equations of a 2D parity session whose control block holds no matrix (an encoder of a re-implementation that does
 * not need one): read them off the public API -- a hidden encoder session builds every repair symbol from unit
 * source symbols, the source symbols of equation i are the bits set in repair symbol k + i */
static void derive_H_2d(dses_t *s, int sid, uint32_t k, uint32_t r)
{
	of_session_t *e = NULL; uint32_t n = k + r, hl = (k + 7) / 8; of_status_t st;
	if (!k || !r || n < k || n > 65536) return;
	LIB_ENTER(sid + 100); st = of_create_codec_instance(&e, OF_CODEC_2D_PARITY_MATRIX_STABLE, OF_ENCODER, 0); LIB_LEAVE();
	if (st != OF_STATUS_OK || !e) return;
	dses_t tmp = *s; tmp.ses = e;
	void **tab = calloc(n, sizeof(void *)); int ok = 1;
	for (uint32_t i = 0; i < n; i++) { tab[i] = calloc(hl, 1); if (i < k) ((unsigned char *)tab[i])[i >> 3] |= (unsigned char)(1u << (i & 7)); }
	if (set_params_raw(&tmp, sid + 100, k, r, hl, 0, 0, 0) != OF_STATUS_OK) ok = 0;
	for (uint32_t i = k; ok && i < n; i++) { LIB_ENTER(sid + 100); if (of_build_repair_symbol(e, tab, i) != OF_STATUS_OK) ok = 0; LIB_LEAVE(); }
	LIB_ENTER(sid + 100); of_release_codec_instance(e); LIB_LEAVE();
	if (ok) {
		int **H = calloc(r, sizeof(int *)); int *Hn = calloc(r, sizeof(int));
		for (uint32_t i = 0; i < r; i++) {
			const unsigned char *b = tab[k + i]; int cnt = 0;
			H[i] = calloc(k + 1, sizeof(int));
			for (uint32_t j = 0; j < k; j++) if ((b[j >> 3] >> (j & 7)) & 1) H[i][cnt++] = (int)j;
			H[i][cnt++] = (int)(k + i); Hn[i] = cnt;
		}
		s->H = H; s->Hn = Hn; s->nH = (int)r;
	}
	for (uint32_t i = 0; i < n; i++) free(tab[i]);
	free(tab);
}

static void emit_H(dses_t *s)
{
	jb_printf(",\"H\":[");
	for (int i = 0; i < s->nH; i++) {
		jb_printf("%s[", i ? "," : "");
		for (int j = 0; j < s->Hn[i]; j++) jb_printf("%s%d", j ? "," : "", s->H[i][j]);
		jb_printf("]");
	}
	jb_printf("]");
}

static void cmd_params(int sid, uint32_t k, uint32_t r, uint32_t len, uint32_t m, uint32_t N1, int32_t seed, int payload, int align, int raw)
{
	dses_t *s = &S[sid];
	s->k = k; s->r = r; s->n = k + r; s->len = len; s->m = m; s->N1 = N1; s->seed = seed; s->payload = payload; s->align = align;
	g_hook_have = 0;
	if (g_pchkev && s->codec == 3) { jb_printf("{\"e\":\"pb\",\"k\":%u,\"r\":%u,\"N1\":%u}\n", k, r, N1); jb_flush(); }
	uint64_t seed_before = of_seed;
	of_status_t st = set_params_raw(s, sid, k, r, len, m, N1, seed);
	jb_printf("{\"e\":\"SetParams\",\"x\":%ld,\"s\":%d,\"codec\":%d,\"role\":\"%s\",\"k\":%d,\"r\":%d,\"len\":%d,\"m\":%u,\"N1\":%u,\"seed\":%d,\"payload\":\"%s\",\"raw\":%d",
		  g_exec, sid, s->codec, s->role == 1 ? "enc" : "dec", (int)(k > 0x7FFFFFFF ? -1 : k), (int)(r > 0x7FFFFFFF ? -1 : r), (int)(len > 0x7FFFFFFF ? -1 : len), m, N1, seed, payload == 1 ? "rnd" : payload == 2 ? "idr" : "id", raw);
	jb_printf(",\"npos\":%u", positions(s));
	jb_printf(",\"kw\":[%u,%u],\"rw\":[%u,%u],\"lw\":[%u,%u]", k >> 16, k & 0xFFFF, r >> 16, r & 0xFFFF, len >> 16, len & 0xFFFF);
	(void)seed_before;
	if (st == OF_STATUS_OK && !raw) {
		s->configured = 1;
		/* parity-check rows of this very session */
		if (s->codec == 3 && g_hook_have) { s->H = g_hookH; s->Hn = g_hookHn; s->nH = g_hooknH; g_hookH = NULL; g_hookHn = NULL; g_hooknH = 0; g_hook_have = 0; }
#ifndef OF_DRIVER_NO_INTERNALS
		else if (s->codec == 3) {
			/* no pchk_done event (hook removed by a refactoring): fall back to the control block of an encoder
			 * session, whose matrix is never consumed (a decoder deletes entries of its own matrix) */
			if (s->role == 1) capture_H(((of_ldpc_staircase_cb_t *)s->ses)->pchk_matrix, k, r, &s->H, &s->Hn, &s->nH);
			else {
				of_session_t *e = NULL;
				LIB_ENTER(sid + 100);
				of_status_t st2 = of_create_codec_instance(&e, OF_CODEC_LDPC_STAIRCASE_STABLE, OF_ENCODER, 0);
				LIB_LEAVE();
				if (st2 == OF_STATUS_OK && e) {
					dses_t tmp = *s; tmp.ses = e;
					if (set_params_raw(&tmp, sid + 100, k, r, len, m, N1, seed) == OF_STATUS_OK)
						capture_H(((of_ldpc_staircase_cb_t *)e)->pchk_matrix, k, r, &s->H, &s->Hn, &s->nH);
					LIB_ENTER(sid + 100); of_release_codec_instance(e); LIB_LEAVE();
				}
			}
		}
#endif
		else if (s->codec == 5) {
#ifndef OF_DRIVER_NO_INTERNALS
			if (((of_2d_parity_cb_t *)s->ses)->pchk_matrix) capture_H(((of_2d_parity_cb_t *)s->ses)->pchk_matrix, k, r, &s->H, &s->Hn, &s->nH);
			else
#endif
			derive_H_2d(s, sid, k, r);
		}
		/* application buffers */
		s->raw = calloc(s->n, sizeof(void *)); s->cw = calloc(s->n, sizeof(void *)); s->orig = calloc(s->n, sizeof(void *)); s->have = calloc(s->n, sizeof(int));
		s->dupbuf = calloc(s->n, sizeof(void *)); s->nsub = calloc(s->n, sizeof(int));
		for (uint32_t i = 0; i < s->n; i++) { s->cw[i] = alloc_app(s, &s->raw[i]); memset(s->cw[i], 0, len); s->orig[i] = malloc(len ? len : 1); }
		for (uint32_t i = 0; i < k; i++) {
			if (payload == 1) for (uint32_t b = 0; b < len; b++) s->cw[i][b] = (unsigned char)rnd32();
			else if (payload == 2) { for (unsigned pp = i; pp < positions(s); pp += k) setpos(s, s->cw[i], pp, 1); }
			else setpos(s, s->cw[i], i, 1);
			s->have[i] = 1;
		}
		if (s->role == 1) {
			s->enc_tab = calloc(s->n, sizeof(void *)); s->enc_libslot = calloc(s->n, sizeof(int));
			for (uint32_t i = 0; i < k; i++) s->enc_tab[i] = s->cw[i];
			/* entries of repair symbols that were not built yet hold garbage (the application has not filled them):
			 * an encoder that looks at entries it does not need dereferences an unmapped address */
			for (uint32_t i = k; i < s->n; i++) s->enc_tab[i] = (void *)(uintptr_t)(0x10 + 8 * (i % 64));
		} else {
			int ok = 1;
			if (s->codec == 3 || s->codec == 5) ok = fill_codeword_binary(s);
			else {
				/* RS: the codeword comes from a hidden encoder session of the library */
				of_session_t *e = NULL;
				LIB_ENTER(sid + 100);
				if (of_create_codec_instance(&e, (of_codec_id_t)s->codec, OF_ENCODER, 0) != OF_STATUS_OK) ok = 0;
				LIB_LEAVE();
				if (ok) {
					dses_t tmp = *s; tmp.ses = e;
					if (set_params_raw(&tmp, sid + 100, k, r, len, m, N1, seed) != OF_STATUS_OK) ok = 0;
					for (uint32_t i = k; ok && i < s->n; i++) {
						LIB_ENTER(sid + 100);
						if (of_build_repair_symbol(e, (void **)s->cw, i) != OF_STATUS_OK) ok = 0;
						LIB_LEAVE();
					}
					LIB_ENTER(sid + 100); of_release_codec_instance(e); LIB_LEAVE();
				}
			}
			for (uint32_t i = k; i < s->n; i++) s->have[i] = ok;
			jb_printf(",\"cw_ok\":%d", ok);
			s->lasttab = calloc(k ? k : 1, sizeof(void *));
			if (s->both) {
				/* an instance of both roles may also be asked for repair symbols (the application holds the whole block) */
				s->enc_tab = calloc(s->n, sizeof(void *)); s->enc_libslot = calloc(s->n, sizeof(int));
				for (uint32_t i = 0; i < s->n; i++) s->enc_tab[i] = s->cw[i];
			}
		}
		for (uint32_t i = 0; i < s->n; i++) memcpy(s->orig[i], s->cw[i], len);
		if (s->H) emit_H(s);
		if ((s->codec == 3 || s->codec == 5) && s->role == 2 && !payload && s->cw) {
			jb_printf(",\"cw\":[");
			for (uint32_t i = 0; i < s->n; i++) { jb_printf("%s", i ? "," : ""); emit_vec(s, s->cw[i]); }
			jb_printf("]");
		}
	}
	if (st == OF_STATUS_OK && s->codec == 3) {
		UINT32 v[2] = { 7, 7 };
		LIB_ENTER(sid);
		of_status_t st2 = of_get_control_parameter(s->ses, OF_CRTL_LDPC_STAIRCASE_IS_LAST_SYMBOL_NULL, v, sizeof(UINT32));
		LIB_LEAVE();
		jb_printf(",\"lastnull\":%d", st2 == OF_STATUS_OK ? (int)(v[0] != 0) : -1);
	}
	jb_printf(",\"prng\":[%u,%u]", (unsigned)(of_seed >> 16), (unsigned)(of_seed & 0xFFFF));
	if (s->configured) emit_itproj(s);
	emit_common(s->configured ? s : NULL, sid, st);
	jb_printf("}\n"); jb_flush();
}

static const char *origin_of(dses_t *s, void *p, uint32_t i, int *poolidx)
{
	*poolidx = -1;
	if (!p) return "null";
	if (p == s->cw[i]) return "app";
	if (s->dupbuf) for (uint32_t j = 0; j < s->n; j++) if (s->dupbuf[j] && p == s->dupbuf[j]) return "appdup";
	for (uint32_t j = 0; j < s->n; j++) if (p == s->cw[j]) return "appwrong";
	for (int j = 0; j < s->npool; j++) if (p == s->pool[j]) { *poolidx = j; return s->pool_esi[j] == (int)i ? "cb" : "cbwrong"; }
	if (led_find(p) >= 0) return "lib";
	return "wild";
}

static void cmd_gettab(int sid, int autocall)
{
	dses_t *s = &S[sid];
	void **tab = calloc(s->k ? s->k : 1, sizeof(void *)); /* exact size: k entries */
	if (s->k == 0) { free(tab); tab = malloc(1); }
	/* the table is the application's: on every other query it holds leftovers (of a previous block, or never
	 * initialised) instead of zeroes.  An entry the library left as it was is garbage to the application when the
	 * call succeeds ("table that will be filled by the library") and nothing when the call is refused */
	int pre = autocall ? 0 : (int)((s->k + (uint32_t)s->ngettab++) & 1);     /* the query made for the release bookkeeping is a plain one */
#define GT_POISON(i) ((void *)(uintptr_t)(0x5A5A0000u + 16u * ((i) % 4096u) + 8u))
	if (pre) for (uint32_t i = 0; i < s->k; i++) tab[i] = GT_POISON(i);
	app_buffers_off_limits(s, 1);
	LIB_ENTER(sid);
	of_status_t st = of_get_source_symbols_tab(s->ses, tab);
	LIB_LEAVE();
	app_buffers_off_limits(s, 0);
	if (pre && st != OF_STATUS_OK) for (uint32_t i = 0; i < s->k; i++) if (tab[i] == GT_POISON(i)) tab[i] = NULL;
	jb_printf("{\"e\":\"GetTab\",\"x\":%ld,\"s\":%d,\"auto\":%d,\"pre\":%d,\"tab\":[", g_exec, sid, autocall, pre);
	for (uint32_t i = 0; i < s->k; i++) {
		int pi; const char *o = origin_of(s, tab[i], i, &pi);
		jb_printf("%s", i ? "," : "");
		if (!tab[i]) { jb_printf("{\"o\":\"null\"}"); continue; }
		jb_printf("{\"o\":\"%s\"", o);
		if (!strcmp(o, "wild")) { jb_printf("}"); continue; }
		if (s->payload) jb_printf(",\"d\":%d", memcmp(tab[i], s->orig[i], s->len) == 0);
		else { jb_printf(",\"v\":"); emit_vec(s, tab[i]); }
		jb_printf("}");
	}
	jb_printf("]");
	if (st == OF_STATUS_OK) { memcpy(s->lasttab, tab, s->k * sizeof(void *)); s->lasttab_valid = 1; }
	free(tab);
	emit_common(s, sid, st);
	jb_printf("}\n"); jb_flush();
}

static void cmd_release(int sid)
{
	dses_t *s = &S[sid];
	if (s->role == 2 && s->configured) cmd_gettab(sid, 1);
	/* decoded source symbols in library-allocated buffers belong to the application from now on: note them before
	 * the release, so that a library that frees them itself is seen (the application would free them again) */
	unsigned char *mine = NULL; long libfreed = 0;
	if (s->role == 2 && s->lasttab_valid) {
		mine = calloc(s->k ? s->k : 1, 1);
		for (uint32_t i = 0; i < s->k; i++) { void *p = s->lasttab[i]; int pi; if (p && !strcmp(origin_of(s, p, i, &pi), "lib")) mine[i] = 1; }
	}
	app_buffers_off_limits(s, 1);
	LIB_ENTER(sid);
	of_status_t st = of_release_codec_instance(s->ses);
	LIB_LEAVE();
	app_buffers_off_limits(s, 0);
	s->released = 1;
	/* the application now frees what the API documents as its own */
	long appowned = 0;
	if (mine)
		for (uint32_t i = 0; i < s->k; i++) {
			void *p = s->lasttab[i];
			if (!mine[i]) continue;
			if (led_find(p) < 0) { libfreed++; continue; }      /* already freed by the library: freeing it again would be a double free */
			free(p); appowned++;
		}
	free(mine);
	if (s->enc_tab)
		for (uint32_t i = s->k; i < s->n; i++) if (s->enc_libslot[i] && s->enc_tab[i]) { free(s->enc_tab[i]); appowned++; }
	jb_printf("{\"e\":\"Release\",\"x\":%ld,\"s\":%d,\"appowned\":%ld,\"libfreed\":%ld,\"leak\":%ld,\"leak_bytes\":%ld", g_exec, sid, appowned, libfreed, live_for(sid), live_bytes_for(sid));
	emit_common(s, sid, st);
	jb_printf("}\n"); jb_flush();
	/* forget leaked blocks so that they are reported once */
	for (size_t i = 0; i < g_nblk;) if (g_blk[i].ses == sid) { g_blk[i] = g_blk[g_nblk - 1]; g_nblk--; } else i++;
	sess_free_buffers(s);
}

static int parse_list(char *txt, int *out, int max)
{
	int n = 0;
	if (!txt || !strcmp(txt, "-")) return 0;
	for (char *t = strtok(txt, ","); t && n < max; t = strtok(NULL, ",")) out[n++] = atoi(t);
	return n;
}

/* the "last repair symbol is null" answer of a configured LDPC-Staircase session, asked again later in its life */
static void emit_lastnull(dses_t *s, int sid)
{
	if (s->codec != 3 || !s->configured || !s->ses) return;
	UINT32 v[2] = { 7, 7 };
	LIB_ENTER(sid);
	of_status_t st2 = of_get_control_parameter(s->ses, OF_CRTL_LDPC_STAIRCASE_IS_LAST_SYMBOL_NULL, v, sizeof(UINT32));
	LIB_LEAVE();
	jb_printf(",\"lastnull\":%d", st2 == OF_STATUS_OK ? (int)(v[0] != 0) : -1);
}

static void run_line(char *line)
{
	char *sv = NULL;
	char *op = strtok_r(line, " \t\r\n", &sv);
	if (!op || op[0] == '#') return;
	char *a[12]; int na = 0;
	while (na < 12 && (a[na] = strtok_r(NULL, " \t\r\n", &sv))) na++;
#define AI(i) ((i) < na ? strtol(a[i], NULL, 10) : 0)
#define AU(i) ((i) < na ? (uint32_t)strtoul(a[i], NULL, 10) : 0)
	int sid = (int)AI(0);
	snprintf(g_curop, sizeof g_curop, "%s", op);
	g_curargs[0] = 0;
	for (int i = 1; i < na && i < 4; i++) { strncat(g_curargs, i > 1 ? " " : "", sizeof g_curargs - strlen(g_curargs) - 1); strncat(g_curargs, a[i], 24); }
	g_curcodec = (sid >= 0 && sid < MAXS) ? S[sid].codec : 0;
	if (!strcmp(op, "srand")) { srand((unsigned)AU(0)); return; }
	if (sid < 0 || sid >= MAXS) return;
	dses_t *s = &S[sid];
	if (!strcmp(op, "create")) {
		memset(s, 0, sizeof *s);
		s->used = 1; s->codec = (int)AI(1); s->role = (na > 2 && !strcmp(a[2], "enc")) ? 1 : 2;
		/* "both": an OF_ENCODER_AND_DECODER instance, used in this execution in the role given by a[2] */
		int both = (na > 3 && !strcmp(a[3], "both"));
		s->both = both;
		LIB_ENTER(sid);
		/* "v1" / "v2": the verbosity argument (a process-wide setting of the library, overwritten by each create) */
		unsigned verb = 0;
		for (int q = 3; q < na; q++) if (a[q][0] == 'v' && a[q][1] >= '0' && a[q][1] <= '9') verb = (unsigned)atoi(a[q] + 1);
		of_status_t st = of_create_codec_instance(&s->ses, (of_codec_id_t)s->codec, both ? OF_ENCODER_AND_DECODER : s->role == 1 ? OF_ENCODER : OF_DECODER, verb);
		LIB_LEAVE();
		jb_printf("{\"e\":\"Create\",\"x\":%ld,\"s\":%d,\"codec\":%d,\"role\":\"%s\",\"both\":%d,\"null\":%d", g_exec, sid, s->codec, s->role == 1 ? "enc" : "dec", both, s->ses == NULL);
		if (s->ses && st == OF_STATUS_OK) {
			/* advertised limits (OF_CTRL_GET_MAX_K / MAX_N); the GF(2^m) codec only knows them once m is set */
			UINT32 mk = 0, mn = 0; of_status_t s1, s2;
			LIB_ENTER(sid);
			s1 = of_get_control_parameter(s->ses, OF_CTRL_GET_MAX_K, &mk, sizeof mk);
			s2 = of_get_control_parameter(s->ses, OF_CTRL_GET_MAX_N, &mn, sizeof mn);
			LIB_LEAVE();
			jb_printf(",\"maxk\":%d,\"maxn\":%d", s1 == OF_STATUS_OK ? (int)mk : -1, s2 == OF_STATUS_OK ? (int)mn : -1);
		}
		emit_common(NULL, sid, st); jb_printf("}\n"); jb_flush();
	} else if (!strcmp(op, "params") || !strcmp(op, "rawparams")) {
		int raw = !strcmp(op, "rawparams");
		cmd_params(sid, AU(1), AU(2), AU(3), AU(4), AU(5), (int32_t)AI(6), (na > 7 && !strcmp(a[7], "rnd")) ? 1 : (na > 7 && !strcmp(a[7], "idr")) ? 2 : 0, (int)AI(8), raw);
	} else if (!strcmp(op, "cb")) {
		s->cbmode = !strcmp(a[1], "buf") ? 1 : !strcmp(a[1], "null") ? 2 : !strcmp(a[1], "mix") ? 3 : !strcmp(a[1], "slab") ? 4 : 0;
		LIB_ENTER(sid);
		of_status_t st = of_set_callback_functions(s->ses, cb_src, (na > 2 && !strcmp(a[2], "rep")) ? cb_rep : NULL, s);
		LIB_LEAVE();
		jb_printf("{\"e\":\"SetCb\",\"x\":%ld,\"s\":%d,\"mode\":\"%s\"", g_exec, sid, a[1]);
		emit_common(s, sid, st); jb_printf("}\n"); jb_flush();
	} else if (!strcmp(op, "build")) {
		uint32_t esi = AU(1); int nullslot = (na > 2 && !strcmp(a[2], "null"));
		int inrange = s->configured && esi >= s->k && esi < s->n;
		if (inrange) s->enc_tab[esi] = nullslot ? NULL : s->cw[esi];
		/* the API says the library copies the built symbol into the application's buffer: its previous
		 * content must not matter, so hand over a buffer full of garbage (recycled buffer) */
		if (inrange && !nullslot && !s->have[esi]) memset(s->cw[esi], 0xA5 ^ (esi & 0x3F), s->len);
		LIB_ENTER(sid);
		of_status_t st = of_build_repair_symbol(s->ses, s->enc_tab, esi);
		LIB_LEAVE();
		jb_printf("{\"e\":\"Build\",\"x\":%ld,\"s\":%d,\"esi\":%u,\"slot\":\"%s\"", g_exec, sid, esi, nullslot ? "null" : "buf");
		emit_lastnull(s, sid);
		if (inrange && st == OF_STATUS_OK) {
			void *p = s->enc_tab[esi];
			const char *o = !p ? "null" : p == s->cw[esi] ? "app" : led_find(p) >= 0 ? "lib" : "wild";
			jb_printf(",\"o\":\"%s\"", o);
			if (p && strcmp(o, "wild")) {
				if (s->payload != 1) { jb_printf(",\"v\":"); emit_vec(s, p); }
				if (!strcmp(o, "lib")) { s->enc_libslot[esi] = 1; led_del(p); }
				if (!strcmp(o, "app")) { memcpy(s->orig[esi], s->cw[esi], s->len); s->have[esi] = 1; }
				else { memcpy(s->cw[esi], p, s->len); memcpy(s->orig[esi], p, s->len); s->have[esi] = 1; }
			}
		}
		emit_common(s, sid, st); jb_printf("}\n"); jb_flush();
	} else if (!strcmp(op, "zero")) {
		/* the application overwrites one of its source symbols with zeros between two encoding calls (next block in
		 * recycled buffers, in-place update): later repair symbols must be computed from the table as it is now */
		uint32_t i = AU(1);
		if (s->configured && i < s->k) {
			memset(s->cw[i], 0, s->len); memset(s->orig[i], 0, s->len);
			jb_printf("{\"e\":\"Zero\",\"x\":%ld,\"s\":%d,\"i\":%u}\n", g_exec, sid, i); jb_flush();
		}
	} else if (!strcmp(op, "recv")) {
		uint32_t esi = AU(1);
		void *buf = (s->configured && esi < s->n) ? s->cw[esi] : (void *)s;
		if (s->configured && esi < s->n && s->role == 2) {
			/* a duplicate arrives in another buffer (same content), as a retransmitted packet would */
			if (s->nsub[esi]++ > 0) {
				if (!s->dupbuf[esi]) { s->dupbuf[esi] = malloc(s->len ? s->len : 1); }
				memcpy(s->dupbuf[esi], s->orig[esi], s->len);
				buf = s->dupbuf[esi];
			}
		}
		LIB_ENTER(sid);
		of_status_t st = of_decode_with_new_symbol(s->ses, buf, esi);
		LIB_LEAVE();
		jb_printf("{\"e\":\"Recv\",\"x\":%ld,\"s\":%d,\"esi\":%u", g_exec, sid, esi);
		emit_itproj(s);
		emit_common(s, sid, st); jb_printf("}\n"); jb_flush();
	} else if (!strcmp(op, "setavail")) {
		int *lst = calloc(s->n + 1, sizeof(int)); int nl = parse_list(na > 1 ? a[1] : NULL, lst, (int)s->n);
		void **tab = calloc(s->n ? s->n : 1, sizeof(void *));
		for (int i = 0; i < nl; i++) if (lst[i] >= 0 && (uint32_t)lst[i] < s->n) tab[lst[i]] = s->cw[lst[i]];
		void **copy = malloc((s->n ? s->n : 1) * sizeof(void *)); memcpy(copy, tab, s->n * sizeof(void *));
		LIB_ENTER(sid);
		of_status_t st = of_set_available_symbols(s->ses, tab);
		LIB_LEAVE();
		int tab_ok = memcmp(copy, tab, s->n * sizeof(void *)) == 0;
		jb_printf("{\"e\":\"SetAvail\",\"x\":%ld,\"s\":%d,\"set\":[", g_exec, sid);
		for (int i = 0; i < nl; i++) jb_printf("%s%d", i ? "," : "", lst[i]);
		jb_printf("],\"tab_ok\":%d", tab_ok);
		emit_itproj(s);
		free(tab); free(copy); free(lst);
		emit_common(s, sid, st); jb_printf("}\n"); jb_flush();
	} else if (!strcmp(op, "finish") || !strcmp(op, "refinish")) {
		if (!strcmp(op, "refinish")) {
			/* an application that finishes again once decoding is complete (idempotence); nothing is called otherwise */
			LIB_ENTER(sid);
			int c = of_is_decoding_complete(s->ses) ? 1 : 0;
			LIB_LEAVE();
			if (!c) return;
		}
		g_ml_nperm = g_ml_npiv = g_ml_have_simpl = g_ml_fail = 0;
		app_buffers_off_limits(s, 1);
		LIB_ENTER(sid);
		of_status_t st = of_finish_decoding(s->ses);
		LIB_LEAVE();
		app_buffers_off_limits(s, 0);
		jb_printf("{\"e\":\"Finish\",\"x\":%ld,\"s\":%d", g_exec, sid);
#ifndef OF_DRIVER_NO_INTERNALS
		if (g_itproj && s->codec == 3 && s->configured && (int)s->n <= g_itproj && !s->payload && s->r <= MAXML) {
			of_linear_binary_code_cb_t *cb = (of_linear_binary_code_cb_t *)s->ses;
			jb_printf(",\"ml\":{\"perm\":[");
			for (int i = 0; i < g_ml_nperm; i++) jb_printf("%s%d", i ? "," : "", g_ml_perm[i]);
			jb_printf("],\"simpl\":[%d,%d,%d],\"piv\":[", g_ml_have_simpl ? g_ml_simpl[0] : -1, g_ml_have_simpl ? g_ml_simpl[1] : -1, g_ml_have_simpl ? g_ml_simpl[2] : -1);
			for (int i = 0; i < g_ml_npiv; i++) jb_printf("%s%d", i ? "," : "", g_ml_piv[i]);
			jb_printf("],\"fail\":%d,\"known\":[", g_ml_fail);
			{ int first = 1; for (uint32_t i = 0; i < s->k; i++) if (cb->encoding_symbols_tab[i]) { jb_printf("%s%u", first ? "" : ",", i); first = 0; } }
			jb_printf("]}");
		}
#endif
		emit_common(s, sid, st); jb_printf("}\n"); jb_flush();
	} else if (!strcmp(op, "complete")) {
		app_buffers_off_limits(s, 1);
		LIB_ENTER(sid);
		int c = of_is_decoding_complete(s->ses) ? 1 : 0;
		LIB_LEAVE();
		app_buffers_off_limits(s, 0);
		if (c && s->role == 2 && s->configured) s->seen_complete = 1;
		jb_printf("{\"e\":\"Complete\",\"x\":%ld,\"s\":%d,\"val\":%d", g_exec, sid, c);
		emit_lastnull(s, sid);
		emit_common(s, sid, 0); jb_printf("}\n"); jb_flush();
	} else if (!strcmp(op, "gettab")) {
		cmd_gettab(sid, 0);
	} else if (!strcmp(op, "release")) {
		cmd_release(sid);
	} else if (!strcmp(op, "expect")) {
		/* expectation exported by the TLC behaviour generator; echoed into the trace for ApiTrace */
		int *lst = calloc(s->n + 1, sizeof(int)); int nl = parse_list(na > 1 ? a[1] : NULL, lst, (int)s->n);
		jb_printf("{\"e\":\"Expect\",\"x\":%ld,\"s\":%d,\"avail\":[", g_exec, sid);
		for (int i = 0; i < nl; i++) jb_printf("%s%d", i ? "," : "", lst[i]);
		jb_printf("],\"complete\":%d}\n", (int)AI(2)); jb_flush();
		free(lst);
	} else if (!strcmp(op, "ctrl")) {
		UINT32 val[4] = { 0xDEADBEEF, 0xDEADBEEF, 0xDEADBEEF, 0xDEADBEEF };
		LIB_ENTER(sid);
		of_status_t st = of_get_control_parameter(s->ses, AU(1), val, sizeof(UINT32));
		LIB_LEAVE();
		jb_printf("{\"e\":\"Ctrl\",\"x\":%ld,\"s\":%d,\"type\":%u,\"val\":%d,\"over\":%d", g_exec, sid, AU(1), (int)(val[0] == 0xDEADBEEF ? -1 : (int)val[0]), val[1] != 0xDEADBEEF);
		emit_common(s->configured ? s : NULL, sid, st); jb_printf("}\n"); jb_flush();
	} else if (!strcmp(op, "setctrl")) {
		UINT16 v = (UINT16)AU(2);
		LIB_ENTER(sid);
		of_status_t st = of_set_control_parameter(s->ses, AU(1), &v, AU(3));
		LIB_LEAVE();
		jb_printf("{\"e\":\"SetCtrl\",\"x\":%ld,\"s\":%d,\"type\":%u,\"val\":%u,\"len\":%u", g_exec, sid, AU(1), (unsigned)v, AU(3));
		emit_common(s->configured ? s : NULL, sid, st); jb_printf("}\n"); jb_flush();
	} else if (!strcmp(op, "misuse")) {
		/* single-argument corruptions of otherwise valid calls (C09) */
		const char *kind = na > 1 ? a[1] : "";
		of_status_t st = OF_STATUS_OK; int bval = -1;
		void **tab = calloc(s->n ? s->n : 1, sizeof(void *));
		LIB_ENTER(sid);
		if (!strcmp(kind, "null_recv")) st = of_decode_with_new_symbol(NULL, s->cw ? s->cw[0] : (void *)s, 0);
		else if (!strcmp(kind, "null_build")) st = of_build_repair_symbol(NULL, tab, s->k);
		else if (!strcmp(kind, "null_setavail")) st = of_set_available_symbols(NULL, tab);
		else if (!strcmp(kind, "null_finish")) st = of_finish_decoding(NULL);
		else if (!strcmp(kind, "null_gettab")) st = of_get_source_symbols_tab(NULL, tab);
		else if (!strcmp(kind, "null_complete")) bval = of_is_decoding_complete(NULL) ? 1 : 0;
		else if (!strcmp(kind, "null_params")) { of_parameters_t p = { 1, 1, 1 }; st = of_set_fec_parameters(NULL, &p); }
		else if (!strcmp(kind, "null_paramptr")) st = of_set_fec_parameters(s->ses, NULL);
		else if (!strcmp(kind, "null_cb")) st = of_set_callback_functions(NULL, cb_src, NULL, s);
		else if (!strcmp(kind, "null_ctrl")) { UINT32 v; st = of_get_control_parameter(NULL, OF_CTRL_GET_MAX_K, &v, sizeof v); }
		else if (!strcmp(kind, "null_setctrl")) { UINT16 v = 8; st = of_set_control_parameter(NULL, OF_RS_CTRL_SET_FIELD_SIZE, &v, sizeof v); }
		else if (!strcmp(kind, "recv_nullbuf")) st = of_decode_with_new_symbol(s->ses, NULL, AU(2));
		else if (!strcmp(kind, "setavail_nulltab")) st = of_set_available_symbols(s->ses, NULL);
		else if (!strcmp(kind, "recv_badesi")) st = of_decode_with_new_symbol(s->ses, s->cw ? s->cw[0] : (void *)s, AU(2));
		else if (!strcmp(kind, "build_badesi")) { for (uint32_t i = 0; i < s->n; i++) tab[i] = s->cw[i]; st = of_build_repair_symbol(s->ses, tab, AU(2)); }
		else if (!strcmp(kind, "role_build")) { for (uint32_t i = 0; i < s->n; i++) tab[i] = s->cw[i]; st = of_build_repair_symbol(s->ses, tab, s->k); }
		else if (!strcmp(kind, "role_recv")) st = of_decode_with_new_symbol(s->ses, s->cw[0], 0);
		else if (!strcmp(kind, "role_setavail")) { tab[0] = s->cw[0]; st = of_set_available_symbols(s->ses, tab); }
		else if (!strcmp(kind, "role_finish")) st = of_finish_decoding(s->ses);
		else if (!strcmp(kind, "role_gettab")) st = of_get_source_symbols_tab(s->ses, tab);
		else if (!strcmp(kind, "role_complete")) bval = of_is_decoding_complete(s->ses) ? 1 : 0;
		else if (!strcmp(kind, "release_null")) st = of_release_codec_instance(NULL);
		else st = (of_status_t)-1;
		LIB_LEAVE();
		free(tab);
		jb_printf("{\"e\":\"Misuse\",\"x\":%ld,\"s\":%d,\"kind\":\"%s\",\"arg\":%u,\"bval\":%d", g_exec, sid, kind, AU(2), bval);
		emit_common(s->configured ? s : NULL, sid, st); jb_printf("}\n"); jb_flush();
	}
}

/* -------------------------------------------------------------------- main */

static void fault_line(const char *what)
{
	char buf[512];
	int n = snprintf(buf, sizeof buf, "{\"e\":\"MemFault\",\"x\":%ld,\"what\":\"%s\",\"op\":\"%s\",\"args\":\"%s\",\"codec\":%d}\n", g_exec, what, g_curop, g_curargs, g_curcodec);
	if (g_jn) { /* drop the half-built line */ g_jn = 0; }
	if (write(g_trfd, buf, n) < 0) {}
}
extern void __asan_set_death_callback(void (*)(void)) __attribute__((weak));
static void asan_death(void) { fault_line("asan"); _exit(42); }
static void on_sig(int sig) { fault_line(sig == SIGALRM ? "hang" : sig == SIGSEGV ? "segv" : sig == SIGFPE ? "fpe" : sig == SIGABRT ? "abort" : "signal"); _exit(43); }

int main(int argc, char **argv)
{
	if (argc < 3) { fprintf(stderr, "usage: %s behaviour trace\n", argv[0]); return 2; }
	FILE *f = fopen(argv[1], "r");
	if (!f) { perror(argv[1]); return 2; }
	g_trfd = open(argv[2], O_WRONLY | O_CREAT | O_APPEND, 0644);
	if (g_trfd < 0) { perror(argv[2]); return 2; }
	if (getenv("VERIF_SEED")) g_rng ^= strtoull(getenv("VERIF_SEED"), NULL, 10) * 0x9E3779B97F4A7C15ULL;
	/* the library prints on stdout/stderr: give both a static buffer and a sink */
	static char obuf[1 << 16];
	if (!getenv("OF_DRIVER_VERBOSE")) { freopen("/dev/null", "w", stdout); freopen("/dev/null", "w", stderr); }
	setvbuf(stdout, obuf, _IOFBF, sizeof obuf);
	setvbuf(stderr, NULL, _IONBF, 0);
	printf("warm-up\n"); fflush(stdout);

	/* read all lines, split into executions at "reset" */
	char **lines = NULL; size_t nl = 0, cl = 0; char *ln = NULL; size_t lc = 0;
	while (getline(&ln, &lc, f) > 0) {
		if (nl == cl) { cl = cl ? cl * 2 : 1024; lines = realloc(lines, cl * sizeof(char *)); }
		lines[nl++] = strdup(ln);
	}
	fclose(f);
	g_progress = mmap(NULL, 4096, PROT_READ | PROT_WRITE, MAP_SHARED | MAP_ANONYMOUS, -1, 0);
	g_progress[0] = 0;  /* index of the line at which the next child starts */
	g_progress[1] = 0;  /* execution counter */
	int fork_each = getenv("OF_DRIVER_FORK_EACH") != NULL;
	g_pchkev = getenv("OF_DRIVER_PCHKEVENTS") != NULL;
	g_itproj = getenv("OF_DRIVER_ITPROJ") ? atoi(getenv("OF_DRIVER_ITPROJ")) : 0;   /* max n for which the IT projection is logged */
	int timeout_s = getenv("OF_DRIVER_EXEC_TIMEOUT") ? atoi(getenv("OF_DRIVER_EXEC_TIMEOUT")) : 300;
	while ((size_t)g_progress[0] < nl) {
		pid_t pid = fork();
		if (pid == 0) {
			if (__asan_set_death_callback) __asan_set_death_callback(asan_death);
			signal(SIGSEGV, on_sig); signal(SIGBUS, on_sig); signal(SIGFPE, on_sig); signal(SIGALRM, on_sig); signal(SIGABRT, on_sig);
			of_verif_event_hook = verif_hook;
			g_exec = g_progress[1];
			size_t i = g_progress[0];
			alarm(timeout_s);
			for (; i < nl; i++) {
				if (!strncmp(lines[i], "reset", 5)) {
					flush_deferred();
					/* end of an execution: everything the driver still holds is dropped */
					for (int s = 0; s < MAXS; s++) if (S[s].used && !S[s].released && S[s].ses) cmd_release(s);
					jb_printf("{\"e\":\"Reset\",\"x\":%ld,\"nested\":%d}\n", g_exec, g_defer_nested); jb_flush();
					g_defer_nested = 0;
					g_exec++; g_progress[1] = g_exec; g_progress[0] = (long)i + 1;
					g_foreign_free = 0; g_nblk = 0; memset(S, 0, sizeof S);
					if (fork_each) _exit(0);   /* next execution starts from the pristine parent image */
					alarm(timeout_s);
					continue;
				}
				{
					char op0[32] = ""; int sid0 = -1;
					sscanf(lines[i], "%31s %d", op0, &sid0);
					if (!strcmp(op0, "oncb")) {
						int n0 = 0; sscanf(lines[i], "%*s %*d %d", &n0);
						flush_deferred();
						if (n0 > 0 && n0 <= MAXDEFER) { g_defer_ses = sid0; g_defer_take = n0; g_ndefer = 0; }
						continue;
					}
					if (g_defer_ses >= 0 && g_ndefer < g_defer_take) { g_defer[g_ndefer++] = strdup(lines[i]); continue; }
					if (g_defer_ses >= 0 && (sid0 != g_defer_ses || !strcmp(op0, "release") || !strcmp(op0, "srand"))) flush_deferred();
				}
				char *dup = strdup(lines[i]);
				run_line(dup);
				free(dup);
			}
			g_progress[0] = (long)nl;
			_exit(0);
		}
		int wst = 0; waitpid(pid, &wst, 0);
		if ((size_t)g_progress[0] < nl && WIFEXITED(wst) && WEXITSTATUS(wst) == 0) {
			continue;   /* fork-per-execution mode: the child finished its execution */
		}
		if ((size_t)g_progress[0] < nl) {
			/* child died inside an execution: skip to the line after the next reset */
			if (!(WIFEXITED(wst) && (WEXITSTATUS(wst) == 42 || WEXITSTATUS(wst) == 43))) {
				char buf[160]; int n = snprintf(buf, sizeof buf, "{\"e\":\"MemFault\",\"x\":%ld,\"what\":\"died%d\",\"op\":\"unknown\",\"args\":\"\",\"codec\":0}\n", (long)g_progress[1], wst);
				if (write(g_trfd, buf, n) < 0) {}
			}
			size_t i = g_progress[0];
			while (i < nl && strncmp(lines[i], "reset", 5)) i++;
			char buf[96]; int n = snprintf(buf, sizeof buf, "{\"e\":\"Reset\",\"x\":%ld}\n", (long)g_progress[1]);
			if (write(g_trfd, buf, n) < 0) {}
			g_progress[1]++; g_progress[0] = (long)(i < nl ? i + 1 : nl);
		}
	}
	close(g_trfd);
	return 0;
}
