/*
 * C14 observation program: writes every entry of the Galois-field tables of the
 * two Reed-Solomon codecs as ndjson, one record per table row.  It decides
 * nothing: the comparison with the field arithmetic is done by TLC
 * (spec/TableTrace.tla).
 *
 *   dump_tables <out.ndjson>
 *
 * The static const tables of the GF(2^m) codec live in algebra_2_4.h / algebra_2_8.h
 * (one private copy per translation unit, all initialised from the same text);
 * the tables of the GF(2^8) codec are static arrays of of_reed-solomon_gf_2_8.c
 * filled by of_rs_init(): both are reached by including the sources from the
 * staged copy of the working tree (-I<bdir>/src).
 */
#include "lib_common/of_mem.c"
#include "lib_stable/reed-solomon_gf_2_8/of_reed-solomon_gf_2_8.c"
#include "lib_stable/reed-solomon_gf_2_m/of_reed-solomon_gf_2_m_includes.h"

#include <stdio.h>
#include <stdlib.h>

static FILE *out;

#define ROW(name, rowidx, nrows, ptr, count)                                             \
	do {                                                                              \
		fprintf(out, "{\"e\":\"Tab\",\"t\":\"%s\",\"row\":%d,\"rows\":%d,\"n\":%d,\"v\":[", \
			name, (int)(rowidx), (int)(nrows), (int)(count));                 \
		for (size_t i_ = 0; i_ < (size_t)(count); i_++)                           \
			fprintf(out, "%s%ld", i_ ? "," : "", (long)(ptr)[i_]);            \
		fprintf(out, "]}\n");                                                     \
	} while (0)

#define TAB1(name, arr) ROW(name, 0, 1, arr, sizeof(arr) / sizeof((arr)[0]))
#define TAB2(name, arr)                                                                   \
	do {                                                                              \
		size_t nr_ = sizeof(arr) / sizeof((arr)[0]);                              \
		for (size_t r_ = 0; r_ < nr_; r_++)                                       \
			ROW(name, r_, nr_, (arr)[r_], sizeof((arr)[0]) / sizeof((arr)[0][0])); \
	} while (0)

int main(int argc, char **argv)
{
	if (argc < 2) { fprintf(stderr, "usage: %s out.ndjson\n", argv[0]); return 2; }
	out = fopen(argv[1], "w");
	if (!out) { perror(argv[1]); return 2; }
	/* the library prints on stdout */
	if (!freopen("/dev/null", "w", stdout)) return 2;

	TAB1("gf24_log", of_gf_2_4_log);
	TAB1("gf24_exp", of_gf_2_4_exp);
	TAB1("gf24_inv", of_gf_2_4_inv);
	TAB2("gf24_mul", of_gf_2_4_mul_table);
	TAB2("gf24_opt", of_gf_2_4_opt_mul_table);

	TAB1("gf28_log", of_gf_2_8_log);
	TAB1("gf28_exp", of_gf_2_8_exp);
	TAB1("gf28_inv", of_gf_2_8_inv);
	TAB2("gf28_mul", of_gf_2_8_mul_table);

	of_rs_init();
	TAB1("rs_exp", of_rs_gf_exp);
	TAB1("rs_log", of_rs_gf_log);
	TAB1("rs_inv", of_rs_inverse);
	TAB2("rs_mul", of_gf_mul_table);

	/* "generated at first use": generating them again (of_rs_init is an exported function) must give the same tables */
	of_rs_init();
	TAB1("rs2_exp", of_rs_gf_exp);
	TAB1("rs2_log", of_rs_gf_log);
	TAB1("rs2_inv", of_rs_inverse);
	TAB2("rs2_mul", of_gf_mul_table);

	fprintf(out, "{\"e\":\"End\"}\n");
	if (fclose(out) != 0) return 2;
	return 0;
}
