/*
 * prng_driver: observation dumper for property C19 (RFC 5170 PRNG, of_rand.c).
 *
 * It compiles the file under test into itself (staged copy of /repo/src), executes a
 * command file and writes one ndjson record per observation.  It never compares
 * anything with an expected value: every decision is taken by TLC (spec/PrngTrace.tla).
 *
 *   usage: prng_driver <commands> <trace.ndjson>
 *
 * commands (one per line, decimal numbers, values are UINT64):
 *   srand V               call of_rfc5170_srand(V); logs V, of_seed before and after
 *   set S                 store S into the extern of_seed (harness action, not a library call)
 *   rand M                call of_rfc5170_rand(M); logs M, of_seed after the call, the result
 *   walk TOTAL WINDOW M   TOTAL calls of of_rfc5170_rand(M); logs of_seed every WINDOW calls
 *                         (and after the last one), and a record each time of_seed == 1
 *
 * 64-bit quantities are written as 5 little-endian digits in base 2^15 (spec/Nat64.tla),
 * because TLC integers are 32-bit.  "cnt" = number of rand calls since the last srand/set,
 * "sd" = value of of_seed observed right after the last srand if that call stored its
 * argument (0 otherwise / after set).
 */
#include <stdio.h>
#include <stdlib.h>
#include <string.h>
#include <unistd.h>

#include "lib_common/of_rand.c"

#ifdef OF_VERIF
of_verif_event_hook_t of_verif_event_hook = 0;
#endif

static FILE *trace;

static void digits(char *buf, unsigned long long v)
{
	sprintf(buf, "[%llu,%llu,%llu,%llu,%llu]", v & 32767ULL, (v >> 15) & 32767ULL, (v >> 30) & 32767ULL,
		(v >> 45) & 32767ULL, (v >> 60) & 32767ULL);
}

int main(int argc, char **argv)
{
	char line[256], cmd[32], b1[96], b2[96], b3[96];
	unsigned long long a, b, c, cnt = 0, sd = 0;
	volatile unsigned long long sink = 0;
	FILE *in;
	int n, errfd;

	if (argc < 3) {
		fprintf(stderr, "usage: prng_driver <commands> <trace>\n");
		return 2;
	}
	in = fopen(argv[1], "r");
	trace = fopen(argv[2], "w");
	if (!in || !trace) {
		fprintf(stderr, "prng_driver: cannot open files\n");
		return 2;
	}
	/* the library writes diagnostics to stderr/stdout: keep them away from our channels */
	errfd = dup(2);
	if (!freopen("/dev/null", "w", stdout) || !freopen("/dev/null", "w", stderr))
		return 2;
	while (fgets(line, sizeof line, in)) {
		a = b = c = 0;
		n = sscanf(line, "%31s %llu %llu %llu", cmd, &a, &b, &c);
		if (n < 1 || cmd[0] == '#')
			continue;
		if (!strcmp(cmd, "srand") && n == 2) {
			unsigned long long before = of_seed;
			of_rfc5170_srand((UINT64) a);
			digits(b1, a); digits(b2, before); digits(b3, of_seed);
			fprintf(trace, "{\"e\":\"srand\",\"v\":%s,\"b\":%s,\"a\":%s}\n", b1, b2, b3);
			cnt = 0;
			sd = (of_seed == a && a < 0x80000000ULL) ? of_seed : 0;
		} else if (!strcmp(cmd, "set") && n == 2) {
			of_seed = (UINT64) a;
			digits(b1, of_seed);
			fprintf(trace, "{\"e\":\"set\",\"s\":%s}\n", b1);
			cnt = 0;
			sd = 0;
		} else if (!strcmp(cmd, "rand") && n == 2) {
			unsigned long long r = of_rfc5170_rand((UINT64) a);
			cnt++;
			digits(b1, of_seed); digits(b2, r);
			fprintf(trace, "{\"e\":\"rand\",\"mv\":%llu,\"s\":%s,\"r\":%s}\n", a, b1, b2);
		} else if (!strcmp(cmd, "walk") && n == 4 && b >= 1 && cnt + a < 0x7FFFFFFFULL) {
			unsigned long long i, since = 0;
			for (i = 1; i <= a; i++) {
				sink += of_rfc5170_rand((UINT64) c);
				cnt++;
				since++;
				if (of_seed == 1)
					fprintf(trace, "{\"e\":\"one\",\"cnt\":%llu,\"sd\":%llu}\n", cnt, sd);
				if (since == b || i == a) {
					digits(b1, of_seed);
					fprintf(trace, "{\"e\":\"walk\",\"n\":%llu,\"cnt\":%llu,\"sd\":%llu,\"s\":%s}\n",
						since, cnt, sd, b1);
					since = 0;
				}
			}
		} else {
			dprintf(errfd, "prng_driver: bad command: %s", line);
			return 2;
		}
	}
	if (fclose(trace) != 0)
		return 2;
	return 0;
}
