/*
 * eperf_shim - records the executions of the repository's own test tool (applis/eperftool) in the
 * trace format of /verif/spec/ApiTrace.tla, so that every API call the 262 eperftool tests make is
 * validated against the specification (not only "no ERROR in the output").
 *
 * eperftool's sources are compiled with -Dof_xxx=shim_of_xxx for every public API function; this file
 * provides the shim_ functions, which call the real library and log one ndjson line per call to the
 * file named by $EPERF_TRACE.  No oracle here: observations only.
 */
#define _GNU_SOURCE
#include <stdio.h>
#include <stdlib.h>
#include <string.h>
#include <stdint.h>
#include <stdarg.h>
#include <unistd.h>
#include <fcntl.h>
#include <errno.h>

#include "lib_common/of_openfec_api.h"
#include "lib_stable/ldpc_staircase/of_ldpc_includes.h"
#include "lib_stable/2d_parity_matrix/of_2d_parity_includes.h"
#include "eperftool/eperftool.h"

extern UINT64 of_seed;

/* ------------------------------------------------------------------ ledger */
void *__real_malloc(size_t); void *__real_calloc(size_t, size_t); void *__real_realloc(void *, size_t); void __real_free(void *);
typedef struct { void *p; size_t sz; int ses; } blk_t;
static blk_t *g_blk; static size_t g_nblk, g_capblk; static int g_in_lib, g_cur = -1; static long g_ff;
static void led_add(void *p, size_t sz) { if (!p) return; if (g_nblk == g_capblk) { g_capblk = g_capblk ? 2 * g_capblk : 4096; g_blk = __real_realloc(g_blk, g_capblk * sizeof(blk_t)); } g_blk[g_nblk].p = p; g_blk[g_nblk].sz = sz; g_blk[g_nblk].ses = g_cur; g_nblk++; }
static int led_find(void *p) { for (size_t i = g_nblk; i-- > 0;) if (g_blk[i].p == p) return (int)i; return -1; }
static int led_del(void *p) { int i = led_find(p); if (i < 0) return 0; g_blk[i] = g_blk[g_nblk - 1]; g_nblk--; return 1; }
void *__wrap_malloc(size_t n) { void *p = __real_malloc(n); if (g_in_lib > 0) led_add(p, n); return p; }
void *__wrap_calloc(size_t a, size_t b) { void *p = __real_calloc(a, b); if (g_in_lib > 0) led_add(p, a * b); return p; }
void *__wrap_realloc(void *o, size_t n) { if (g_in_lib > 0) { if (o && led_find(o) < 0) g_ff++; if (o) led_del(o); void *p = __real_realloc(o, n); led_add(p, n); return p; } if (o) led_del(o); return __real_realloc(o, n); }
void __wrap_free(void *p) { if (p) { int was = led_del(p); if (g_in_lib > 0 && !was) g_ff++; } __real_free(p); }
static long live_for(int s) { long c = 0; for (size_t i = 0; i < g_nblk; i++) if (g_blk[i].ses == s) c++; return c; }

/* ------------------------------------------------------------------ output */
static int g_fd = -2; static char *g_jb; static size_t g_jn, g_jc;
static void jb(const char *fmt, ...) { va_list ap; for (;;) { va_start(ap, fmt); int w = vsnprintf(g_jb + g_jn, g_jc - g_jn, fmt, ap); va_end(ap); if (w >= 0 && (size_t)w < g_jc - g_jn) { g_jn += w; return; } g_jc = (g_jc + (w > 0 ? w : 64) + 1) * 2; g_jb = __real_realloc(g_jb, g_jc); } }
static void flush(void) { size_t o = 0; while (g_fd >= 0 && o < g_jn) { ssize_t w = write(g_fd, g_jb + o, g_jn - o); if (w <= 0) break; o += w; } g_jn = 0; }
static void at_end(void) { if (g_fd >= 0) { jb("{\"e\":\"Reset\",\"x\":0}\n"); flush(); } }

/* ---------------------------------------------------------------- sessions */
#define MAXS 16
#define MAXCB 70000
typedef struct {
	of_session_t *ses; int codec, role; uint32_t k, r, n, len;
	void **rx;            /* first pointer submitted per ESI */
	void **cbbuf;         /* buffer returned by the application's callback per source ESI */
	void **lasttab; int lasttab_ok;
	void *(*ucb)(void *, UINT32, UINT32); void *uctx;
} sh_t;
static sh_t S[MAXS];
static struct { int esi; unsigned size; int ret; int ses; } g_cbl[4096]; static int g_ncbl;
static int **g_H; static int *g_Hn; static int g_nH, g_haveH;

static void hook(const char *name, const void *obj, long a, long b, long c, long d)
{
	int save = g_in_lib; g_in_lib = 0;
	if (!strcmp(name, "pchk_done")) {
		const of_mod2sparse *m = obj; int nr = of_mod2sparse_rows(m); uint32_t r = (uint32_t)a, k = (uint32_t)(b - a);
		for (int i = 0; i < g_nH; i++) free(g_H[i]); free(g_H); free(g_Hn);
		g_H = calloc(nr, sizeof(int *)); g_Hn = calloc(nr, sizeof(int)); g_nH = nr;
		for (int i = 0; i < nr; i++) {
			int cnt = 0; of_mod2entry *e;
			for (e = of_mod2sparse_first_in_row(m, i); !of_mod2sparse_at_end(e); e = of_mod2sparse_next_in_row(e)) cnt++;
			g_H[i] = calloc(cnt ? cnt : 1, sizeof(int)); g_Hn[i] = cnt; cnt = 0;
			for (e = of_mod2sparse_first_in_row(m, i); !of_mod2sparse_at_end(e); e = of_mod2sparse_next_in_row(e))
				g_H[i][cnt++] = (e->col < (int)r) ? e->col + (int)k : e->col - (int)r;
		}
		g_haveH = 1;
	}
	(void)c; (void)d; g_in_lib = save;
}

static void init(void)
{
	if (g_fd != -2) return;
	const char *p = getenv("EPERF_TRACE");
	g_fd = p ? open(p, O_WRONLY | O_CREAT | O_TRUNC, 0644) : -1;
	of_verif_event_hook = hook;
	atexit(at_end);
}
static int sid_of(of_session_t *s) { for (int i = 0; i < MAXS; i++) if (S[i].ses == s && s) return i; return -1; }
static void common(int sid, int st)
{
	jb(",\"st\":%d,\"cb\":[", st);
	for (int i = 0; i < g_ncbl; i++) jb("%s[%d,%u,%d,%d]", i ? "," : "", g_cbl[i].esi, g_cbl[i].size, g_cbl[i].ret, g_cbl[i].ses);
	jb("],\"app_ok\":1,\"ff\":%ld,\"live\":%ld}\n", g_ff, live_for(sid)); g_ncbl = 0; flush();
}
#define ENTER(s) do { g_cur = (s); g_in_lib++; } while (0)
#define LEAVE()  do { g_in_lib--; } while (0)

of_status_t shim_of_create_codec_instance(of_session_t **ses, of_codec_id_t codec_id, of_codec_type_t type, UINT32 verbosity)
{
	init();
	int sid = -1; for (int i = 0; i < MAXS; i++) if (!S[i].ses) { sid = i; break; }
	ENTER(sid); of_status_t st = of_create_codec_instance(ses, codec_id, type, verbosity); LEAVE();
	if (sid < 0 || g_fd < 0) return st;
	memset(&S[sid], 0, sizeof S[sid]);
	if (st == OF_STATUS_OK && *ses) { S[sid].ses = *ses; S[sid].codec = codec_id; S[sid].role = (type & OF_DECODER) ? 2 : 1; }
	jb("{\"e\":\"Create\",\"x\":0,\"s\":%d,\"codec\":%d,\"role\":\"%s\",\"null\":%d", sid, (int)codec_id, (type & OF_DECODER) ? "dec" : "enc", *ses == NULL);
	if (*ses && st == OF_STATUS_OK) {
		UINT32 mk = 0, mn = 0; of_status_t s1, s2;
		ENTER(sid); s1 = of_get_control_parameter(*ses, OF_CTRL_GET_MAX_K, &mk, sizeof mk); s2 = of_get_control_parameter(*ses, OF_CTRL_GET_MAX_N, &mn, sizeof mn); LEAVE();
		jb(",\"maxk\":%d,\"maxn\":%d", s1 == OF_STATUS_OK ? (int)mk : -1, s2 == OF_STATUS_OK ? (int)mn : -1);
	}
	common(sid, st);
	return st;
}

of_status_t shim_of_set_fec_parameters(of_session_t *ses, of_parameters_t *params)
{
	init();
	int sid = sid_of(ses); sh_t *s = sid >= 0 ? &S[sid] : NULL;
	g_haveH = 0;
	ENTER(sid); of_status_t st = of_set_fec_parameters(ses, params); LEAVE();
	if (!s || g_fd < 0) return st;
	uint32_t k = params->nb_source_symbols, r = params->nb_repair_symbols, len = params->encoding_symbol_length, m = 0, N1 = 0; int seed = 0;
	if (s->codec == 3) { of_ldpc_parameters_t *p = (of_ldpc_parameters_t *)params; N1 = p->N1; seed = p->prng_seed; }
	if (s->codec == 2) { of_rs_2_m_parameters_t *p = (of_rs_2_m_parameters_t *)params; m = p->m; }
	s->k = k; s->r = r; s->n = k + r; s->len = len;
	jb("{\"e\":\"SetParams\",\"x\":0,\"s\":%d,\"codec\":%d,\"role\":\"%s\",\"k\":%d,\"r\":%d,\"len\":%d,\"m\":%u,\"N1\":%u,\"seed\":%d,\"payload\":\"rnd\",\"raw\":0",
	   sid, s->codec, s->role == 1 ? "enc" : "dec", (int)k, (int)r, (int)len, m, N1, seed);
	jb(",\"npos\":0,\"kw\":[%u,%u],\"rw\":[%u,%u],\"lw\":[%u,%u],\"cw_ok\":1", k >> 16, k & 0xFFFF, r >> 16, r & 0xFFFF, len >> 16, len & 0xFFFF);
	if (st == OF_STATUS_OK) {
		s->rx = calloc(s->n ? s->n : 1, sizeof(void *)); s->cbbuf = calloc(k ? k : 1, sizeof(void *)); s->lasttab = calloc(k ? k : 1, sizeof(void *));
		if (s->codec == 3 && g_haveH) {
			jb(",\"H\":[");
			for (int i = 0; i < g_nH; i++) { jb("%s[", i ? "," : ""); for (int j = 0; j < g_Hn[i]; j++) jb("%s%d", j ? "," : "", g_H[i][j]); jb("]"); }
			jb("]");
			UINT32 v[2] = { 7, 7 };
			ENTER(sid); of_status_t s2 = of_get_control_parameter(ses, OF_CRTL_LDPC_STAIRCASE_IS_LAST_SYMBOL_NULL, v, sizeof(UINT32)); LEAVE();
			jb(",\"lastnull\":%d", s2 == OF_STATUS_OK ? (int)(v[0] != 0) : -1);
		}
	}
	jb(",\"prng\":[%u,%u]", (unsigned)(of_seed >> 16), (unsigned)(of_seed & 0xFFFF));
	common(sid, st);
	return st;
}

static void *shim_cb(void *ctx, UINT32 size, UINT32 esi)
{
	int save = g_in_lib; g_in_lib = 0;
	sh_t *s = ctx; void *ret = s->ucb ? s->ucb(s->uctx, size, esi) : NULL;
	if (ret && esi < s->k) s->cbbuf[esi] = ret;
	if (g_ncbl < 4096) { g_cbl[g_ncbl].esi = (int)esi; g_cbl[g_ncbl].size = size; g_cbl[g_ncbl].ret = ret != NULL; g_cbl[g_ncbl].ses = (int)(s - S); g_ncbl++; }
	g_in_lib = save;
	return ret;
}

of_status_t shim_of_set_callback_functions(of_session_t *ses, void *(*scb)(void *, UINT32, UINT32), void *(*rcb)(void *, UINT32, UINT32), void *ctx)
{
	init();
	int sid = sid_of(ses); sh_t *s = sid >= 0 ? &S[sid] : NULL;
	if (!s || g_fd < 0 || !scb) return of_set_callback_functions(ses, scb, rcb, ctx);
	s->ucb = scb; s->uctx = ctx;
	ENTER(sid); of_status_t st = of_set_callback_functions(ses, shim_cb, rcb, s); LEAVE();
	jb("{\"e\":\"SetCb\",\"x\":0,\"s\":%d,\"mode\":\"buf\"", sid); common(sid, st);
	return st;
}

of_status_t shim_of_build_repair_symbol(of_session_t *ses, void *tab[], UINT32 esi)
{
	init();
	int sid = sid_of(ses); sh_t *s = sid >= 0 ? &S[sid] : NULL;
	void *before = (s && esi < s->n) ? tab[esi] : NULL;
	ENTER(sid); of_status_t st = of_build_repair_symbol(ses, tab, esi); LEAVE();
	if (!s || g_fd < 0) return st;
	jb("{\"e\":\"Build\",\"x\":0,\"s\":%d,\"esi\":%u,\"slot\":\"%s\"", sid, esi, before ? "buf" : "null");
	if (st == OF_STATUS_OK && esi < s->n) {
		void *p = tab[esi]; const char *o = !p ? "null" : (before && p == before) ? "app" : led_find(p) >= 0 ? "lib" : "wild";
		jb(",\"o\":\"%s\"", o); if (!strcmp(o, "lib")) led_del(p);
	}
	common(sid, st);
	return st;
}

of_status_t shim_of_decode_with_new_symbol(of_session_t *ses, void *const buf, UINT32 esi)
{
	init();
	int sid = sid_of(ses); sh_t *s = sid >= 0 ? &S[sid] : NULL;
	if (s && s->rx && esi < s->n && !s->rx[esi]) s->rx[esi] = buf;
	ENTER(sid); of_status_t st = of_decode_with_new_symbol(ses, buf, esi); LEAVE();
	if (!s || g_fd < 0) return st;
	jb("{\"e\":\"Recv\",\"x\":0,\"s\":%d,\"esi\":%u", sid, esi); common(sid, st);
	return st;
}

of_status_t shim_of_set_available_symbols(of_session_t *ses, void *const tab[])
{
	init();
	int sid = sid_of(ses); sh_t *s = sid >= 0 ? &S[sid] : NULL;
	if (s && s->rx) for (uint32_t i = 0; i < s->n; i++) if (tab[i] && !s->rx[i]) s->rx[i] = tab[i];
	ENTER(sid); of_status_t st = of_set_available_symbols(ses, tab); LEAVE();
	if (!s || g_fd < 0) return st;
	jb("{\"e\":\"SetAvail\",\"x\":0,\"s\":%d,\"set\":[", sid);
	int first = 1; for (uint32_t i = 0; i < s->n; i++) if (tab[i]) { jb("%s%u", first ? "" : ",", i); first = 0; }
	jb("],\"tab_ok\":1"); common(sid, st);
	return st;
}

of_status_t shim_of_finish_decoding(of_session_t *ses)
{
	init();
	int sid = sid_of(ses);
	ENTER(sid); of_status_t st = of_finish_decoding(ses); LEAVE();
	if (sid < 0 || g_fd < 0) return st;
	jb("{\"e\":\"Finish\",\"x\":0,\"s\":%d", sid); common(sid, st);
	return st;
}

bool shim_of_is_decoding_complete(of_session_t *ses)
{
	init();
	int sid = sid_of(ses);
	ENTER(sid); bool c = of_is_decoding_complete(ses); LEAVE();
	if (sid < 0 || g_fd < 0) return c;
	jb("{\"e\":\"Complete\",\"x\":0,\"s\":%d,\"val\":%d", sid, c ? 1 : 0); common(sid, 0);
	return c;
}

of_status_t shim_of_get_source_symbols_tab(of_session_t *ses, void *tab[])
{
	init();
	int sid = sid_of(ses); sh_t *s = sid >= 0 ? &S[sid] : NULL;
	/* eperftool hands over its own table already holding the received pointers: start from NULLs to see what the library reports */
	void **mine = s ? calloc(s->k ? s->k : 1, sizeof(void *)) : NULL;
	ENTER(sid); of_status_t st = of_get_source_symbols_tab(ses, mine ? mine : tab); LEAVE();
	if (!s || g_fd < 0) { if (mine) { memcpy(tab, mine, s->k * sizeof(void *)); free(mine); } return st; }
	block_cb_t *blk = NULL;
	for (UINT32 b = 0; b < tot_nb_blocks; b++) if (blk_cb_tab[b].ses == ses) blk = &blk_cb_tab[b];
	jb("{\"e\":\"GetTab\",\"x\":0,\"s\":%d,\"auto\":0,\"tab\":[", sid);
	for (uint32_t i = 0; i < s->k; i++) {
		void *p = mine[i]; jb("%s", i ? "," : "");
		if (!p) { jb("{\"o\":\"null\"}"); continue; }
		const char *o = (s->rx[i] && p == s->rx[i]) ? "app" : (s->cbbuf[i] && p == s->cbbuf[i]) ? "cb" : led_find(p) >= 0 ? "lib" : "wild";
		int d = (blk && strcmp(o, "wild")) ? memcmp(p, orig_symb[blk->first_src_symbol_idx + i], s->len) == 0 : 0;
		jb("{\"o\":\"%s\",\"d\":%d}", o, d);
	}
	jb("]");
	if (st == OF_STATUS_OK) { memcpy(s->lasttab, mine, s->k * sizeof(void *)); s->lasttab_ok = 1; memcpy(tab, mine, s->k * sizeof(void *)); }
	free(mine);
	common(sid, st);
	return st;
}

of_status_t shim_of_release_codec_instance(of_session_t *ses)
{
	init();
	int sid = sid_of(ses); sh_t *s = sid >= 0 ? &S[sid] : NULL;
	ENTER(sid); of_status_t st = of_release_codec_instance(ses); LEAVE();
	if (!s || g_fd < 0) return st;
	/* what the API documents as the application's: decoded source symbols held in library-allocated buffers */
	long appowned = 0;
	if (s->lasttab_ok) for (uint32_t i = 0; i < s->k; i++) if (s->lasttab[i] && led_del(s->lasttab[i])) appowned++;
	jb("{\"e\":\"Release\",\"x\":0,\"s\":%d,\"appowned\":%ld,\"leak\":%ld,\"leak_bytes\":0", sid, appowned, live_for(sid)); common(sid, st);
	for (size_t i = 0; i < g_nblk;) if (g_blk[i].ses == sid) { g_blk[i] = g_blk[g_nblk - 1]; g_nblk--; } else i++;
	free(s->rx); free(s->cbbuf); free(s->lasttab); memset(s, 0, sizeof *s);
	return st;
}

of_status_t shim_of_get_control_parameter(of_session_t *ses, UINT32 type, void *value, UINT32 length)
{ init(); int sid = sid_of(ses); ENTER(sid); of_status_t st = of_get_control_parameter(ses, type, value, length); LEAVE(); return st; }
of_status_t shim_of_set_control_parameter(of_session_t *ses, UINT32 type, void *value, UINT32 length)
{ init(); int sid = sid_of(ses); ENTER(sid); of_status_t st = of_set_control_parameter(ses, type, value, length); LEAVE(); return st; }
of_status_t shim_of_more_about(of_session_t *ses, char **v, char **c) { return of_more_about(ses, v, c); }
