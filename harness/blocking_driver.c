/*
 * blocking_driver: observation dumper for property C20 (eperftool block partitioning).
 *
 * It compiles the staged applis/eperftool/blocking_struct.c into itself, calls
 * of_compute_blocking_struct for the requested (B, L, E) and writes what the function
 * stored into the of_blocking_struct_t.  It decides nothing: spec/BlockingTrace.tla does.
 *
 *   usage: blocking_driver <commands> <trace.ndjson>
 *
 * commands (decimal, all values UINT32):
 *   w B L E            one call; every quantity is logged as 3 little-endian digits in
 *                      base 2^15 (spec/Nat64.tla) because TLC integers are 32-bit
 *   g B E L0 COUNT     COUNT calls with L = L0, L0+1, ... (all below 2^31); one record with
 *                      plain integers; an output that does not fit 31 bits is logged as -1
 *
 * blocking_struct.c prints with printf unconditionally: stdout goes to /dev/null.
 */
#include <stdio.h>
#include <stdlib.h>
#include <string.h>
#include <unistd.h>
#include <signal.h>
#include <setjmp.h>

#include "blocking_struct.c"

#ifdef OF_VERIF
of_verif_event_hook_t of_verif_event_hook = 0;
#endif

/* a crash (SIGFPE, SIGSEGV) inside the function under test becomes a trace record */
static sigjmp_buf g_jmp;
static void on_crash(int sig) { siglongjmp(g_jmp, sig); }

static void d3(char *buf, UINT32 v)
{
	sprintf(buf, "[%u,%u,%u]", v & 32767u, (v >> 15) & 32767u, (v >> 30) & 3u);
}

static long long small(UINT32 v)
{
	return v < 0x80000000u ? (long long) v : -1LL;
}

int main(int argc, char **argv)
{
	char line[256], cmd[16], b[7][48];
	unsigned long long a1, a2, a3, a4, j;
	of_blocking_struct_t bs;
	FILE *in, *trace;
	int n, errfd;

	if (argc < 3) {
		fprintf(stderr, "usage: blocking_driver <commands> <trace>\n");
		return 2;
	}
	in = fopen(argv[1], "r");
	trace = fopen(argv[2], "w");
	if (!in || !trace) {
		fprintf(stderr, "blocking_driver: cannot open files\n");
		return 2;
	}
	{
		struct sigaction sa; memset(&sa, 0, sizeof sa); sa.sa_handler = on_crash; sigemptyset(&sa.sa_mask); sa.sa_flags = SA_NODEFER;
		sigaction(SIGFPE, &sa, NULL); sigaction(SIGSEGV, &sa, NULL); sigaction(SIGBUS, &sa, NULL);
	}
	errfd = dup(2);
	if (!freopen("/dev/null", "w", stdout))
		return 2;
	while (fgets(line, sizeof line, in)) {
		a1 = a2 = a3 = a4 = 0;
		n = sscanf(line, "%15s %llu %llu %llu %llu", cmd, &a1, &a2, &a3, &a4);
		if (n < 1 || cmd[0] == '#')
			continue;
		if (!strcmp(cmd, "w") && n == 4 && a1 <= 0xFFFFFFFFULL && a2 <= 0xFFFFFFFFULL && a3 <= 0xFFFFFFFFULL) {
			memset(&bs, 0xA5, sizeof bs);
			d3(b[0], (UINT32) a1); d3(b[1], (UINT32) a2); d3(b[2], (UINT32) a3);
			if (sigsetjmp(g_jmp, 1) != 0) {
				fprintf(trace, "{\"e\":\"crash\",\"B\":%s,\"L\":%s,\"E\":%s}\n", b[0], b[1], b[2]);
				continue;
			}
			of_compute_blocking_struct((UINT32) a1, (UINT32) a2, (UINT32) a3, &bs);
			d3(b[3], bs.nb_blocks); d3(b[4], bs.I); d3(b[5], bs.A_large); d3(b[6], bs.A_small);
			fprintf(trace, "{\"e\":\"w\",\"B\":%s,\"L\":%s,\"E\":%s,\"N\":%s,\"I\":%s,\"Al\":%s,\"As\":%s}\n",
				b[0], b[1], b[2], b[3], b[4], b[5], b[6]);
		} else if (!strcmp(cmd, "g") && n == 5 && a1 < 0x40000000ULL && a2 < 0x40000000ULL && a4 >= 1 &&
			   a3 + a4 < 0x40000000ULL) {
			fprintf(trace, "{\"e\":\"g\",\"B\":%llu,\"E\":%llu,\"L0\":%llu,\"rows\":[", a1, a2, a3);
			for (j = 0; j < a4; j++) {
				memset(&bs, 0xA5, sizeof bs);
				if (sigsetjmp(g_jmp, 1) != 0) {
					/* crash on this tuple: logged as an impossible row (all -1) */
					fprintf(trace, "%s[-1,-1,-1,-1]", j ? "," : "");
					continue;
				}
				of_compute_blocking_struct((UINT32) a1, (UINT32) (a3 + j), (UINT32) a2, &bs);
				fprintf(trace, "%s[%lld,%lld,%lld,%lld]", j ? "," : "", small(bs.nb_blocks), small(bs.I),
					small(bs.A_large), small(bs.A_small));
			}
			fprintf(trace, "]}\n");
		} else {
			dprintf(errfd, "blocking_driver: bad command: %s", line);
			return 2;
		}
	}
	if (fclose(trace) != 0)
		return 2;
	return 0;
}
