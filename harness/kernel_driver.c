/*
 * C13 observation program: runs the symbol kernels of the library on the case
 * space defined in spec/Kernels.tla and logs what they did (ndjson).  It decides
 * nothing: expected bytes, guard bytes and the completeness of the case space
 * are evaluated by TLC (spec/KernelTrace.tla).
 *
 *   kernel_driver <tier q|t> <kid 0..6> <parts R> <part RES> <out.ndjson>
 *   env KD_ONLY="sz,n,p,c"   run only this group (replays)
 *
 * One record per group <<size, n, pattern, c>> (sizes with size % R == RES):
 *   {"e":"G","tier":..,"kid":..,"sz":..,"n":..,"p":..,"c":..,"runs":[RUN,...]}
 *   RUN = {"a":[offsets],"v":0|1,"f":0|1|2,"w":"..","b":[{"i":buf,"l":[..],"c":[..],"r":[..]},..]}
 * Variant 0: each buffer is malloc(offset + size) and starts at +offset, so the
 *   ASan red zone begins right after the last byte (over-reads and over-writes abort).
 * Variant 1: each buffer is malloc(offset + 16 + size + 16) and starts at
 *   +offset+16; the 16 bytes on each side carry a known pattern and are logged.
 * The kernels run in a forked child.  When the child dies (ASan report, signal,
 * alarm) the parent records the run as {"f":1,"w":cause} and forks again for the
 * next run; after MAXFAULTS faults the remaining runs are recorded as {"f":2}.
 *
 * Static functions (of_addmul1) are reached by including the library sources
 * from the staged copy of the working tree (-I<bdir>/src); link with objs=[].
 */
/* KD_KID = n builds a driver for kernel n only (only its translation unit is included): used when the complete
 * driver does not build because one of the routines no longer exists under its name in the tree */
#ifndef KD_KID
#define KD_HAS(n) 1
#else
#define KD_HAS(n) (KD_KID == (n))
#endif
#include "lib_common/of_mem.c"
#if KD_HAS(3)
#include "lib_stable/reed-solomon_gf_2_8/of_reed-solomon_gf_2_8.c"
#endif
#if KD_HAS(5) || KD_HAS(6)
#include "lib_stable/reed-solomon_gf_2_m/galois_field_codes_utils/algebra_2_4.c"
#endif
#if KD_HAS(4)
#include "lib_stable/reed-solomon_gf_2_m/galois_field_codes_utils/algebra_2_8.c"
#endif
#if KD_HAS(0) || KD_HAS(1) || KD_HAS(2)
#include "lib_common/linear_binary_codes_utils/of_symbol.c"
#endif
#include "lib_common/of_openfec_api.h"

#ifdef OF_DEBUG
#error "kernel_driver expects the non-OF_DEBUG kernel signatures"
#endif

#include <errno.h>
#include <fcntl.h>
#include <signal.h>
#include <stdint.h>
#include <stdio.h>
#include <stdlib.h>
#include <string.h>
#include <sys/mman.h>
#include <sys/wait.h>
#include <unistd.h>

#define MAXBUF 24
#define LINECAP (64u << 20)
#define MAXFAULTS 400

/* ------------------------------------------------------------ case space
 * (mirrors Kernels.tla; TLC verifies membership, order, run shapes and the count) */
static int g_tier_q, g_kid, g_parts, g_part;

static int max_size(void) { return g_tier_q ? 40 : 80; }
static int max_count(void) { return g_tier_q ? 9 : 20; }
static int field_bits(void) { return (g_kid == 5 || g_kid == 6) ? 4 : 8; }
static int in_set(int x, const int *s, int n) { for (int i = 0; i < n; i++) if (s[i] == x) return 1; return 0; }
static int const_a(int c)
{
	static const int q8[] = {0, 1, 142}, t8[] = {0, 1, 2, 142, 255}, q4[] = {0, 1, 9}, t4[] = {0, 1, 2, 9, 15};
	if (field_bits() == 8) return g_tier_q ? in_set(c, q8, 3) : in_set(c, t8, 5);
	return g_tier_q ? in_set(c, q4, 3) : in_set(c, t4, 5);
}
static int const_b(int c)
{
	static const int q8[] = {2, 3, 29, 83, 128, 202, 255}, q4[] = {2, 7, 15};
	if (field_bits() == 8) return g_tier_q ? in_set(c, q8, 7) : (c >= 0 && c <= 255);
	return g_tier_q ? in_set(c, q4, 3) : (c >= 0 && c <= 15);
}
static int size_b(int sz)
{
	static const int q[] = {0, 1, 15, 16, 17, 33, 40};
	return g_tier_q ? in_set(sz, q, 7) : (sz >= 0 && sz <= 80);
}
/* sizes beyond the dense range (Kernels.tla: SizesBig, CountsBig, ConstBig) */
static int is_big(int sz) { return sz > max_size(); }
static int size_big(int sz)
{
	static const int q[] = {255, 256, 257, 1024, 4095, 4096, 4097, 8197};
	static const int t[] = {127, 128, 129, 255, 256, 257, 1023, 1024, 1025, 2048, 4095, 4096, 4097, 8191, 8192, 8193, 12288, 16385};
	return g_tier_q ? in_set(sz, q, 8) : in_set(sz, t, 18);
}
static int count_big(int n)
{
	static const int q[] = {2, 9, 17}, t[] = {1, 2, 3, 8, 9, 11, 16, 17};
	return g_tier_q ? in_set(n, q, 3) : in_set(n, t, 8);
}
static int size_sparse(int sz)
{
	static const int q[] = {32, 40, 257, 4097}, t[] = {31, 32, 33, 40, 48, 64, 80, 129, 257, 1025, 4097};
	return g_tier_q ? in_set(sz, q, 4) : in_set(sz, t, 11);
}
static int max_any_size(void) { return g_tier_q ? 8197 : 16385; }
static int is_group(int sz, int n, int p, int c)
{
	if (p == 3) {
		if (!size_sparse(sz)) return 0;
		if (g_kid == 0) return n == 1 && c == 0;
		if (g_kid <= 2) return n >= 1 && n <= 3 && c == 0;
		return n == 1 && c == (field_bits() == 8 ? 142 : 9);
	}
	if (is_big(sz)) {
		if (!size_big(sz) || p != 2) return 0;
		if (g_kid == 0) return n == 1 && c == 0;
		if (g_kid <= 2) return count_big(n) && c == 0;
		return n == 1 && c == (field_bits() == 8 ? 142 : 9);
	}
	if (sz < 0 || sz > max_size() || (p != 0 && p != 1)) return 0;
	if (g_kid == 0) return n == 1 && c == 0;
	if (g_kid <= 2) return n >= 0 && n <= max_count() && c == 0;
	if (n != 1 || c < 0 || c >= (1 << field_bits())) return 0;
	if (const_a(c)) return 1;
	return p == 0 && size_b(sz) && const_b(c);
}
static int n_dst(int n) { return g_kid == 2 ? n : 1; }
static int n_src(int n) { return g_kid == 1 ? n : 1; }
static int n_buf(int n) { return n_dst(n) + n_src(n); }

/* alignment sequences: 0 = every vector of (0..7)^nb, 1 = uniform, 2 = uniform then staggered */
static int al_scheme(int sz, int n, int p, int c)
{
	if (is_big(sz) || p == 3) return 3;
	if (p == 1 && g_tier_q) return 1;
	if (g_kid >= 3 && !const_a(c)) return 2;
	return n_buf(n) <= 3 ? 0 : 2;
}
static long al_count(int scheme, int nb)
{
	if (scheme == 1) return 8;
	if (scheme == 2) return 16;
	if (scheme == 3) return 3;
	long k = 1; for (int i = 0; i < nb; i++) k *= 8; return k;
}
static void al_vector(int scheme, int nb, long k, int *a)
{
	if (scheme == 3) { for (int b = 0; b < nb; b++) a[b] = k == 0 ? 0 : k == 1 ? 1 : (5 + b) % 8; }
	else if (scheme == 0) { for (int b = nb - 1; b >= 0; b--) { a[b] = (int)(k % 8); k /= 8; } }
	else if (scheme == 1 || k < 8) { for (int b = 0; b < nb; b++) a[b] = (int)k; }
	else { for (int b = 0; b < nb; b++) a[b] = (int)((k - 8 + b) % 8); }
}

/* ------------------------------------------------- operand contents (Kernels.tla: Byte, Content, GuardL/R) */
static unsigned byte_of(int p, int i, int j)
{
	if (p == 0) return (unsigned)(37 * i + 11 * j + 5) % 256u;
	if (p == 2) return (unsigned)(37 * i + 29 * (i / 251) + 11 * j + 5) % 256u;
	if (p == 3) return ((i / 16) % 3 == 1) ? 0u : (unsigned)(37 * i + 11 * j + 5) % 256u;
	return (unsigned)((i + 1) * (j + 3) * 167 + i * i * 13 + 91) % 256u;
}
static unsigned content(int p, int i, int j) { unsigned b = byte_of(p, i, j); return g_kid == 5 ? b % 16u : b; }
static unsigned guard_l(int b, int i) { return (unsigned)(195 + 7 * b + i) % 256u; }
static unsigned guard_r(int b, int i) { return (unsigned)(60 + 5 * b + 3 * i) % 256u; }

/* ------------------------------------------------------------- shared state */
struct shared {
	long group;          /* index of the group being run */
	long run;            /* next run of that group */
	long nent;           /* run entries already in the line */
	long faults;
	size_t len;          /* bytes of the current line in buf */
	char buf[LINECAP];
};
static struct shared *S;
static int g_fd;

struct group { int sz, n, p, c; };
static struct group *G;
static long NG;

static void line_add(const char *s, size_t n)
{
	if (S->len + n + 16 > LINECAP) _exit(7);
	memcpy(S->buf + S->len, s, n);
	S->len += n;
}
static void line_flush(void)
{
	size_t off = 0;
	while (off < S->len) {
		ssize_t w = write(g_fd, S->buf + off, S->len - off);
		if (w <= 0) { if (errno == EINTR) continue; _exit(8); }
		off += (size_t)w;
	}
	S->len = 0;
}

/* small formatter (entries are built locally and appended in one piece after the kernel returned) */
struct ebuf { char *p; size_t n, cap; };
static void eb_need(struct ebuf *e, size_t k) { if (e->n + k > e->cap) { e->cap = (e->n + k) * 2; e->p = realloc(e->p, e->cap); if (!e->p) _exit(9); } }
static void eb_str(struct ebuf *e, const char *s) { size_t k = strlen(s); eb_need(e, k); memcpy(e->p + e->n, s, k); e->n += k; }
static void eb_int(struct ebuf *e, long v)
{
	char t[24]; int k = 0; unsigned long u = (unsigned long)(v < 0 ? -v : v);
	do { t[k++] = (char)('0' + u % 10); u /= 10; } while (u);
	if (v < 0) t[k++] = '-';
	eb_need(e, (size_t)k);
	while (k) e->p[e->n++] = t[--k];
}
static void eb_bytes(struct ebuf *e, const unsigned char *b, size_t n)
{
	eb_str(e, "[");
	for (size_t i = 0; i < n; i++) { if (i) eb_str(e, ","); eb_int(e, b[i]); }
	eb_str(e, "]");
}
static void eb_head(struct ebuf *e, const int *a, int nb, int v, int f, const char *w)
{
	eb_str(e, "{\"a\":[");
	for (int b = 0; b < nb; b++) { if (b) eb_str(e, ","); eb_int(e, a[b]); }
	eb_str(e, "],\"v\":"); eb_int(e, v);
	eb_str(e, ",\"f\":"); eb_int(e, f);
	eb_str(e, ",\"w\":\""); eb_str(e, w); eb_str(e, "\",\"b\":[");
}
static void entry_commit(struct ebuf *e)
{
	if (S->nent) line_add(",", 1);
	line_add(e->p, e->n);
	S->nent++;
	e->n = 0;
}

static void run_params(const struct group *g, long r, int *a, int *v)
{
	int nb = n_buf(g->n);
	al_vector(al_scheme(g->sz, g->n, g->p, g->c), nb, r / 2, a);
	*v = (int)(r % 2);
}
static long runs_of(const struct group *g) { return 2 * al_count(al_scheme(g->sz, g->n, g->p, g->c), n_buf(g->n)); }

static void fault_entry(const struct group *g, long r, int f, const char *w)
{
	static struct ebuf e;
	int a[MAXBUF], v;
	run_params(g, r, a, &v);
	eb_head(&e, a, n_buf(g->n), v, f, w);
	eb_str(&e, "]}");
	entry_commit(&e);
}

/* one run: allocate, fill, call the kernel, log */
static void do_run(const struct group *g, long r)
{
	static struct ebuf e;
	int a[MAXBUF], v, nb = n_buf(g->n), nd = n_dst(g->n), ns = n_src(g->n);
	unsigned char *blk[MAXBUF], *buf[MAXBUF];
	size_t sz = (size_t)g->sz;
	run_params(g, r, a, &v);
	for (int b = 0; b < nb; b++) {
		size_t pre = (size_t)a[b] + (v ? 16 : 0);
		blk[b] = malloc(pre + sz + (v ? 16 : 0));
		if (!blk[b]) _exit(10);
		buf[b] = blk[b] + pre;
		int j = b < nd ? 32 + b : b - nd;     /* operand index of the spec */
		for (size_t i = 0; i < sz; i++) buf[b][i] = (unsigned char)content(g->p, (int)i, j);
		if (v) for (int i = 0; i < 16; i++) { buf[b][-16 + i] = (unsigned char)guard_l(b, i); buf[b][sz + i] = (unsigned char)guard_r(b, i); }
	}
	void **ptab = NULL;
	switch (g_kid) {
#if KD_HAS(0)
	case 0: of_add_to_symbol(buf[0], buf[1], (UINT32)sz); break;
#endif
#if KD_HAS(1)
	case 1:
		ptab = malloc((size_t)ns * sizeof(void *));     /* exact size: reading from[n] aborts */
		for (int s = 0; s < ns; s++) ptab[s] = buf[nd + s];
		of_add_from_multiple_symbols(buf[0], (const void **)ptab, (UINT32)ns, (UINT32)sz);
		break;
#endif
#if KD_HAS(2)
	case 2:
		ptab = malloc((size_t)nd * sizeof(void *));
		for (int d = 0; d < nd; d++) ptab[d] = buf[d];
		of_add_to_multiple_symbols(ptab, buf[nd], (UINT32)nd, (UINT32)sz);
		break;
#endif
#if KD_HAS(3)
	case 3: of_addmul1(buf[0], buf[1], (gf)g->c, (int)sz); break;
#endif
#if KD_HAS(4)
	case 4: of_galois_field_2_8_addmul1(buf[0], buf[1], (gf)g->c, (int)sz); break;
#endif
#if KD_HAS(5)
	case 5: of_galois_field_2_4_addmul1(buf[0], buf[1], (gf)g->c, (int)sz); break;
#endif
#if KD_HAS(6)
	case 6: of_galois_field_2_4_addmul1_compact(buf[0], buf[1], (gf)g->c, (int)sz); break;
#endif
	default: _exit(9);
	}
	free(ptab);
	eb_head(&e, a, nb, v, 0, "");
	int first = 1;
	for (int b = 0; b < nb; b++) {
		if (b >= nd && !(v == 1 && ns <= 2)) continue;
		if (!first) eb_str(&e, ",");
		first = 0;
		eb_str(&e, "{\"i\":"); eb_int(&e, b);
		eb_str(&e, ",\"l\":"); eb_bytes(&e, buf[b] - 16, v ? 16 : 0);
		eb_str(&e, ",\"c\":"); eb_bytes(&e, buf[b], sz);
		eb_str(&e, ",\"r\":"); eb_bytes(&e, buf[b] + sz, v ? 16 : 0);
		eb_str(&e, "}");
	}
	eb_str(&e, "]}");
	for (int b = 0; b < nb; b++) free(blk[b]);
	entry_commit(&e);
}

static void group_open(const struct group *g)
{
	static struct ebuf e;
	eb_str(&e, "{\"e\":\"G\",\"tier\":\""); eb_str(&e, g_tier_q ? "q" : "t");
	eb_str(&e, "\",\"kid\":"); eb_int(&e, g_kid);
	eb_str(&e, ",\"sz\":"); eb_int(&e, g->sz);
	eb_str(&e, ",\"n\":"); eb_int(&e, g->n);
	eb_str(&e, ",\"p\":"); eb_int(&e, g->p);
	eb_str(&e, ",\"c\":"); eb_int(&e, g->c);
	eb_str(&e, ",\"runs\":[");
	line_add(e.p, e.n);
	e.n = 0;
	S->nent = 0;
}
static void group_close(void) { line_add("]}\n", 3); line_flush(); }

extern void __asan_set_death_callback(void (*)(void)) __attribute__((weak));
static void asan_death(void) { _exit(42); }

static void child(void)
{
	if (__asan_set_death_callback) __asan_set_death_callback(asan_death);
#if KD_HAS(3)
	of_rs_init();
#endif
	while (S->group < NG) {
		const struct group *g = &G[S->group];
		long nr = runs_of(g);
		if (S->run == 0 && S->nent == 0 && S->len == 0) group_open(g);
		alarm(120);
		while (S->run < nr) {
			if (S->faults >= MAXFAULTS) fault_entry(g, S->run, 2, "");
			else do_run(g, S->run);
			S->run++;
		}
		group_close();
		S->group++; S->run = 0; S->nent = 0;
	}
	_exit(0);
}

int main(int argc, char **argv)
{
	if (argc < 6) { fprintf(stderr, "usage: %s q|t kid parts part out.ndjson\n", argv[0]); return 2; }
	g_tier_q = argv[1][0] == 'q';
	g_kid = atoi(argv[2]); g_parts = atoi(argv[3]); g_part = atoi(argv[4]);
	if (g_kid < 0 || g_kid > 6 || g_parts < 1 || g_part < 0 || g_part >= g_parts) { fprintf(stderr, "bad arguments\n"); return 2; }
	g_fd = open(argv[5], O_WRONLY | O_CREAT | O_TRUNC | O_APPEND, 0644);
	if (g_fd < 0) { perror(argv[5]); return 2; }
	if (!getenv("KD_VERBOSE")) { if (!freopen("/dev/null", "w", stdout) || !freopen("/dev/null", "w", stderr)) return 2; }

	/* groups of this part in increasing (sz, n, p, c) */
	int only[4], have_only = 0;
	if (getenv("KD_ONLY") && sscanf(getenv("KD_ONLY"), "%d,%d,%d,%d", &only[0], &only[1], &only[2], &only[3]) == 4) have_only = 1;
	long cap = 0;
	for (int sz = 0; sz <= max_any_size(); sz++) {
		if (is_big(sz) && !size_big(sz) && !size_sparse(sz)) continue;
		for (int n = 0; n <= 31; n++)
			for (int p = 0; p <= 3; p++)
				for (int c = 0; c < 256; c++) {
					if (!is_group(sz, n, p, c)) continue;
					if (have_only ? !(sz == only[0] && n == only[1] && p == only[2] && c == only[3]) : (sz % g_parts != g_part)) continue;
					if (NG == cap) { cap = cap ? cap * 2 : 1024; G = realloc(G, (size_t)cap * sizeof *G); if (!G) return 2; }
					G[NG].sz = sz; G[NG].n = n; G[NG].p = p; G[NG].c = c; NG++;
				}
	}

	S = mmap(NULL, sizeof *S, PROT_READ | PROT_WRITE, MAP_SHARED | MAP_ANONYMOUS, -1, 0);
	if (S == MAP_FAILED) { perror("mmap"); return 2; }
	S->group = 0; S->run = 0; S->nent = 0; S->faults = 0; S->len = 0;
	while (S->group < NG) {
		pid_t pid = fork();
		if (pid < 0) { perror("fork"); return 2; }
		if (pid == 0) child();
		int wst = 0;
		while (waitpid(pid, &wst, 0) < 0) if (errno != EINTR) return 2;
		if (WIFEXITED(wst) && WEXITSTATUS(wst) == 0) break;
		if (WIFEXITED(wst) && WEXITSTATUS(wst) >= 7 && WEXITSTATUS(wst) <= 10) return 3;   /* driver problem */
		if (S->group >= NG) break;
		/* the child died inside run S->run of group S->group */
		char w[32];
		if (WIFEXITED(wst) && WEXITSTATUS(wst) == 42) snprintf(w, sizeof w, "asan");
		else if (WIFSIGNALED(wst)) snprintf(w, sizeof w, WTERMSIG(wst) == SIGALRM ? "hang" : "signal%d", WTERMSIG(wst));
		else snprintf(w, sizeof w, "exit%d", WIFEXITED(wst) ? WEXITSTATUS(wst) : -1);
		if (S->run == 0 && S->nent == 0 && S->len == 0) group_open(&G[S->group]);   /* died before opening the line */
		fault_entry(&G[S->group], S->run, 1, w);
		S->run++;
		S->faults++;
	}
	if (write(g_fd, "{\"e\":\"End\"}\n", 12) != 12) return 2;
	close(g_fd);
	return 0;
}
