/*
 * matrix_driver: applies recorded operation sequences to the REAL sparse / dense GF(2)
 * matrix modules, the popcount helpers and the dense-system solver of the library, and
 * dumps what it observes (ndjson, one record per operation).  It never judges anything:
 * every comparison is done by TLC on spec/SparseTrace.tla and spec/DenseTrace.tla.
 *
 * usage: matrix_driver <command file> <trace file>
 *
 * command file: one operation per line, executions separated by a line "reset".
 *   sparse (slot ids 0..NS-1; dense slot ids 0..ND-1)
 *     salloc a R C | sins a r c | sfind a r c | sdel a r c | sq a r c | sclear a | sfree a
 *     scopy a b | scopyrows a b n v.. | scopyrows_opt a b n v.. | scopycols a b n v..
 *     scopycols_opt a b n v.. | sfilled a b n v.. m w.. | s2d a b | d2s a b
 *   dense
 *     dalloc a R C | dfree a | dget a r c | dset a r c val | dflip a r c | dclear a
 *     dcopy a b | dcopyrows a b n v.. | dcopycols a b n v.. | dxor a from to | dload a n rows.. cols..
 *     drw a r | drwi a r nb | dcw a c | dempty a r
 *   popcount helpers (words are given as lists of bit positions)
 *     hw32 n b.. | hw8 n b.. | hw64 n b.. | hwarr size n b..
 *   solver
 *     solve mode p q L  <p groups: n c..>  <p groups: isnull n b..>
 *
 * Every record carries the operation and its arguments ("op","a","b","r","c","v","w"),
 * the value returned by the operation ("ret") and the full projection of the operand
 * matrices after the operation ("sa"/"sb" sparse, "da"/"db" dense):
 *   sparse: rows/cols = forward traversals, rrows/rcols = backward traversals,
 *           find = for every row the columns for which of_mod2sparse_find answers non-NULL,
 *           bad = number of entries whose own (row,col) contradicts where they were met,
 *           live = allocations currently owned by this matrix (malloc ledger)
 *   dense:  bits = for every row the columns for which of_mod2dense_get answers 1,
 *           pad = number of non-zero padding bits of the last word of the rows
 * A sanitizer report or a fatal signal becomes {"e":"MemFault",...,<operation>}: the
 * operation is written into a shared slot BEFORE it is executed.  Each execution that
 * faults costs one forked child; the next child resumes after the next "reset".
 */
#define _GNU_SOURCE
#include <stdio.h>
#include <stdlib.h>
#include <string.h>
#include <stdint.h>
#include <stdarg.h>
#include <unistd.h>
#include <signal.h>
#include <fcntl.h>
#include <errno.h>
#include <sys/mman.h>
#include <sys/wait.h>

#include "lib_common/linear_binary_codes_utils/of_linear_binary_code.h"

UINT8 of_hweight8_table(UINT8 w);   /* exported by of_hamming_weight.c, missing from its header */

/* ------------------------------------------------------------------ ledger */

void *__real_malloc(size_t);
void *__real_calloc(size_t, size_t);
void *__real_realloc(void *, size_t);
void  __real_free(void *);

typedef struct { void *p; int owner; } blk_t;
static blk_t  *g_blk;
static size_t  g_nblk, g_capblk;
static int     g_in_lib;      /* >0: inside a call of the library */
static int     g_owner = -1;  /* matrix (ledger id) the current call allocates for */
static long    g_foreign;     /* the library released something it never allocated */

static void led_add(void *p)
{
	if (!p) return;
	if (g_nblk == g_capblk) {
		size_t nc = g_capblk ? g_capblk * 2 : 1024;
		blk_t *nb = __real_realloc(g_blk, nc * sizeof(blk_t));
		if (!nb) abort();
		g_blk = nb; g_capblk = nc;
	}
	g_blk[g_nblk].p = p; g_blk[g_nblk].owner = g_owner; g_nblk++;
}
static int led_del(void *p)
{
	for (size_t i = g_nblk; i-- > 0;)
		if (g_blk[i].p == p) { g_blk[i] = g_blk[g_nblk - 1]; g_nblk--; return 1; }
	return 0;
}
static long led_count(int owner)
{
	long n = 0;
	for (size_t i = 0; i < g_nblk; i++) if (g_blk[i].owner == owner) n++;
	return n;
}
static void led_drop(int owner)
{
	for (size_t i = 0; i < g_nblk;)
		if (g_blk[i].owner == owner) { g_blk[i] = g_blk[g_nblk - 1]; g_nblk--; } else i++;
}
void *__wrap_malloc(size_t n) { void *p = __real_malloc(n); if (g_in_lib > 0) led_add(p); return p; }
void *__wrap_calloc(size_t a, size_t b) { void *p = __real_calloc(a, b); if (g_in_lib > 0) led_add(p); return p; }
void *__wrap_realloc(void *o, size_t n)
{
	if (g_in_lib > 0) {
		if (o && !led_del(o)) g_foreign++;
		void *p = __real_realloc(o, n);
		led_add(p);
		return p;
	}
	if (o) led_del(o);
	return __real_realloc(o, n);
}
void __wrap_free(void *p)
{
	if (p) { int was = led_del(p); if (g_in_lib > 0 && !was) g_foreign++; }
	__real_free(p);
}
#define LIB_ENTER(owner) do { g_owner = (owner); g_in_lib++; } while (0)
#define LIB_LEAVE()      do { g_in_lib--; } while (0)

/* ------------------------------------------------------------- trace output */

static int   g_trfd = -1;
static char *g_jb; static size_t g_jn, g_jc;
static void jb_printf(const char *fmt, ...)
{
	va_list ap;
	for (;;) {
		va_start(ap, fmt);
		int w = vsnprintf(g_jb + g_jn, g_jc - g_jn, fmt, ap);
		va_end(ap);
		if (w < 0) abort();
		if ((size_t)w < g_jc - g_jn) { g_jn += w; return; }
		g_jc = (g_jc + w + 1) * 2;
		g_jb = __real_realloc(g_jb, g_jc);
		if (!g_jb) abort();
	}
}
static void jb_flush(void)
{
	size_t off = 0;
	while (off < g_jn) {
		ssize_t w = write(g_trfd, g_jb + off, g_jn - off);
		if (w <= 0) { if (errno == EINTR) continue; _exit(3); }
		off += w;
	}
	g_jn = 0;
}
static void jb_list(const char *name, const long *v, long n)
{
	jb_printf(",\"%s\":[", name);
	for (long i = 0; i < n; i++) jb_printf(i ? ",%ld" : "%ld", v[i]);
	jb_printf("]");
}

/* ----------------------------------------------------------- shared progress */

typedef struct {
	volatile long next_line;   /* index of the line at which the next child starts */
	volatile long exec;        /* execution counter */
	char cur[3800];            /* JSON fragment of the operation being executed */
} shared_t;
static shared_t *g_sh;
static long g_exec;

/* -------------------------------------------------------------------- slots */

#define NS 4
#define ND 4
#define DOWNER(i) (100 + (i))
static of_mod2sparse *SP[NS];
static of_mod2dense  *DN[ND];

static void proj_sparse(const char *name, int slot)
{
	of_mod2sparse *m = SP[slot];
	if (!m) {
		jb_printf(",\"%s\":{\"R\":0,\"C\":0,\"rows\":[],\"cols\":[],\"rrows\":[],\"rcols\":[],\"find\":[],\"bad\":0,\"live\":%ld}",
		          name, led_count(slot));
		return;
	}
	long R = of_mod2sparse_rows(m), C = of_mod2sparse_cols(m), cap = R * C + 1, bad = 0;
	of_mod2entry *e;
	jb_printf(",\"%s\":{\"R\":%ld,\"C\":%ld,\"rows\":[", name, R, C);
	for (long i = 0; i < R; i++) {
		long n = 0;
		jb_printf(i ? ",[" : "[");
		for (e = of_mod2sparse_first_in_row(m, i); !of_mod2sparse_at_end_row(e); e = of_mod2sparse_next_in_row(e)) {
			if (n >= cap) { bad++; break; }
			if (of_mod2sparse_row(e) != i) bad++;
			jb_printf(n++ ? ",%d" : "%d", (int)of_mod2sparse_col(e));
		}
		jb_printf("]");
	}
	jb_printf("],\"cols\":[");
	for (long j = 0; j < C; j++) {
		long n = 0;
		jb_printf(j ? ",[" : "[");
		for (e = of_mod2sparse_first_in_col(m, j); !of_mod2sparse_at_end_col(e); e = of_mod2sparse_next_in_col(e)) {
			if (n >= cap) { bad++; break; }
			if (of_mod2sparse_col(e) != j) bad++;
			jb_printf(n++ ? ",%d" : "%d", (int)of_mod2sparse_row(e));
		}
		jb_printf("]");
	}
	jb_printf("],\"rrows\":[");
	for (long i = 0; i < R; i++) {
		long n = 0;
		jb_printf(i ? ",[" : "[");
		for (e = of_mod2sparse_last_in_row(m, i); !of_mod2sparse_at_end_row(e); e = of_mod2sparse_prev_in_row(e)) {
			if (n >= cap) { bad++; break; }
			if (of_mod2sparse_row(e) != i) bad++;
			jb_printf(n++ ? ",%d" : "%d", (int)of_mod2sparse_col(e));
		}
		jb_printf("]");
	}
	jb_printf("],\"rcols\":[");
	for (long j = 0; j < C; j++) {
		long n = 0;
		jb_printf(j ? ",[" : "[");
		for (e = of_mod2sparse_last_in_col(m, j); !of_mod2sparse_at_end_col(e); e = of_mod2sparse_prev_in_col(e)) {
			if (n >= cap) { bad++; break; }
			if (of_mod2sparse_col(e) != j) bad++;
			jb_printf(n++ ? ",%d" : "%d", (int)of_mod2sparse_row(e));
		}
		jb_printf("]");
	}
	jb_printf("],\"find\":[");
	for (long i = 0; i < R; i++) {
		long n = 0;
		jb_printf(i ? ",[" : "[");
		for (long j = 0; j < C; j++) {
			LIB_ENTER(slot);
			e = of_mod2sparse_find(m, (UINT32)i, (UINT32)j);
			LIB_LEAVE();
			if (e) {
				if (of_mod2sparse_row(e) != i || of_mod2sparse_col(e) != j) bad++;
				jb_printf(n++ ? ",%ld" : "%ld", j);
			}
		}
		jb_printf("]");
	}
	jb_printf("],\"bad\":%ld,\"live\":%ld}", bad, led_count(slot));
}

static void proj_dense(const char *name, int slot)
{
	of_mod2dense *m = DN[slot];
	if (!m) { jb_printf(",\"%s\":{\"R\":0,\"C\":0,\"bits\":[],\"pad\":0}", name); return; }
	long R = of_mod2dense_rows(m), C = of_mod2dense_cols(m), pad = 0;
	jb_printf(",\"%s\":{\"R\":%ld,\"C\":%ld,\"bits\":[", name, R, C);
	for (long i = 0; i < R; i++) {
		long n = 0;
		jb_printf(i ? ",[" : "[");
		for (long j = 0; j < C; j++) {
			LIB_ENTER(DOWNER(slot));
			UINT32 b = of_mod2dense_get(m, (UINT32)i, (UINT32)j);
			LIB_LEAVE();
			if (b) jb_printf(n++ ? ",%ld" : "%ld", j);
		}
		jb_printf("]");
		if (C % 32) {
			UINT32 w = m->row[i][m->n_words - 1] >> (C % 32);
			while (w) { pad += w & 1; w >>= 1; }
		}
	}
	jb_printf("],\"pad\":%ld}", pad);
}

/* --------------------------------------------------------------- operations */

#define MAXTOK 40000
static long T[MAXTOK]; static int NT;
static char OPN[32];

typedef struct { long a, b, r, c; const long *v; long nv; const long *w; long nw; } args_t;

/* writes the operation into the shared slot (pre marker) and into the record */
static void begin_op(const args_t *A)
{
	char *p = g_sh->cur; size_t cap = sizeof g_sh->cur, n = 0;
	n += snprintf(p + n, cap - n, "\"op\":\"%s\",\"a\":%ld,\"b\":%ld,\"r\":%ld,\"c\":%ld,\"v\":[", OPN, A->a, A->b, A->r, A->c);
	for (long i = 0; i < A->nv && n + 32 < cap; i++) n += snprintf(p + n, cap - n, i ? ",%ld" : "%ld", A->v[i]);
	n += snprintf(p + n, cap - n, "],\"w\":[");
	for (long i = 0; i < A->nw && n + 32 < cap; i++) n += snprintf(p + n, cap - n, i ? ",%ld" : "%ld", A->w[i]);
	snprintf(p + n, cap - n, "]");
	g_jn = 0;
	jb_printf("{\"e\":\"Op\",\"x\":%ld,\"op\":\"%s\",\"a\":%ld,\"b\":%ld,\"r\":%ld,\"c\":%ld", g_exec, OPN, A->a, A->b, A->r, A->c);
	jb_list("v", A->v, A->nv);
	jb_list("w", A->w, A->nw);
}
static void end_op(void) { jb_printf("}\n"); jb_flush(); g_sh->cur[0] = 0; }

static void proto_error(const char *why)
{
	g_jn = 0;
	jb_printf("{\"e\":\"Proto\",\"x\":%ld,\"op\":\"%s\",\"why\":\"%s\"}\n", g_exec, OPN, why);
	jb_flush();
}

static UINT32 *u32dup(const long *v, long n)
{
	UINT32 *p = __real_malloc((n ? n : 1) * sizeof(UINT32));   /* exact size: out-of-bounds reads are seen by ASan */
	for (long i = 0; i < n; i++) p[i] = (UINT32)v[i];
	if (n == 0) { __real_free(p); p = __real_malloc(1); }
	return p;
}

static int sparse_ok(long s) { return s >= 0 && s < NS && SP[s]; }
static int dense_ok(long s)  { return s >= 0 && s < ND && DN[s]; }

static void do_solve(void);

static void run_op(void)
{
	args_t A; memset(&A, 0, sizeof A);
	long ret = 0;
	const char *o = OPN;

	/* ------------------------------------------------------------ sparse */
	if (!strcmp(o, "salloc")) {
		A.a = T[0]; A.r = T[1]; A.c = T[2];
		if (A.a < 0 || A.a >= NS || SP[A.a]) { proto_error("slot"); return; }
		begin_op(&A);
		LIB_ENTER(A.a); SP[A.a] = of_mod2sparse_allocate((UINT32)A.r, (UINT32)A.c); LIB_LEAVE();
		ret = SP[A.a] != NULL;
		jb_printf(",\"ret\":%ld", ret); proj_sparse("sa", A.a); end_op();
	} else if (!strcmp(o, "sins") || !strcmp(o, "sfind") || !strcmp(o, "sdel") || !strcmp(o, "sq")) {
		A.a = T[0]; A.r = T[1]; A.c = T[2];
		if (!sparse_ok(A.a)) { proto_error("slot"); return; }
		of_mod2sparse *m = SP[A.a]; of_mod2entry *e;
		long q[3] = {0, 0, 0}; int nq = 0;
		begin_op(&A);
		LIB_ENTER(A.a);
		if (o[1] == 'i') {
			e = of_mod2sparse_insert(m, (UINT32)A.r, (UINT32)A.c);
			ret = (e && of_mod2sparse_row(e) == A.r && of_mod2sparse_col(e) == A.c) ? 1 : 0;
		} else if (o[1] == 'f') {
			e = of_mod2sparse_find(m, (UINT32)A.r, (UINT32)A.c);
			ret = e ? ((of_mod2sparse_row(e) == A.r && of_mod2sparse_col(e) == A.c) ? 1 : 2) : 0;
		} else if (o[1] == 'd') {
			e = of_mod2sparse_find(m, (UINT32)A.r, (UINT32)A.c);
			ret = e ? 1 : 0;
			if (e) of_mod2sparse_delete(m, e);
		} else {
			q[0] = of_mod2sparse_empty_row(m, (UINT32)A.r) ? 1 : 0;
			q[1] = of_mod2sparse_empty_col(m, (UINT32)A.c) ? 1 : 0;
			q[2] = (long)of_mod2sparse_weight_row(m, (UINT32)A.r);
			nq = 3;
		}
		LIB_LEAVE();
		jb_printf(",\"ret\":%ld", ret); jb_list("q", q, nq); proj_sparse("sa", A.a); end_op();
	} else if (!strcmp(o, "sclear")) {
		A.a = T[0];
		if (!sparse_ok(A.a)) { proto_error("slot"); return; }
		begin_op(&A);
		LIB_ENTER(A.a); of_mod2sparse_clear(SP[A.a]); LIB_LEAVE();
		jb_printf(",\"ret\":0"); proj_sparse("sa", A.a); end_op();
	} else if (!strcmp(o, "sfree")) {
		A.a = T[0];
		if (!sparse_ok(A.a)) { proto_error("slot"); return; }
		begin_op(&A);
		LIB_ENTER(A.a); of_mod2sparse_free(SP[A.a]); of_free(SP[A.a]); LIB_LEAVE();
		SP[A.a] = NULL;
		jb_printf(",\"ret\":0"); proj_sparse("sa", A.a); end_op();
		led_drop(A.a);   /* whatever stayed behind was reported in "live"; forget it for the next user of the slot */
	} else if (!strcmp(o, "scopy")) {
		A.a = T[0]; A.b = T[1];
		if (!sparse_ok(A.a) || !sparse_ok(A.b) || A.a == A.b) { proto_error("slot"); return; }
		begin_op(&A);
		LIB_ENTER(A.b); of_mod2sparse_copy(SP[A.a], SP[A.b]); LIB_LEAVE();
		jb_printf(",\"ret\":0"); proj_sparse("sa", A.a); proj_sparse("sb", A.b); end_op();
	} else if (!strcmp(o, "scopyrows") || !strcmp(o, "scopyrows_opt") || !strcmp(o, "scopycols") || !strcmp(o, "scopycols_opt")) {
		A.a = T[0]; A.b = T[1]; A.nv = T[2]; A.v = &T[3];
		if (!sparse_ok(A.a) || !sparse_ok(A.b) || A.a == A.b || A.nv < 0 || 3 + A.nv > NT) { proto_error("args"); return; }
		int rows = o[5] == 'r', opt = strstr(o, "_opt") != NULL;
		if (A.nv != (rows ? of_mod2sparse_rows(SP[A.b]) : of_mod2sparse_cols(SP[A.b]))) { proto_error("index-array-length"); return; }
		UINT32 *idx = u32dup(A.v, A.nv);
		begin_op(&A);
		LIB_ENTER(A.b);
		if (rows && !opt) of_mod2sparse_copyrows(SP[A.a], SP[A.b], idx);
		else if (rows) of_mod2sparse_copyrows_opt(SP[A.a], SP[A.b], idx, NULL);
		else if (!opt) of_mod2sparse_copycols(SP[A.a], SP[A.b], idx);
		else of_mod2sparse_copycols_opt(SP[A.a], SP[A.b], idx);
		LIB_LEAVE();
		__real_free(idx);
		jb_printf(",\"ret\":0"); proj_sparse("sa", A.a); proj_sparse("sb", A.b); end_op();
	} else if (!strcmp(o, "sfilled")) {
		A.a = T[0]; A.b = T[1]; A.nv = T[2]; A.v = &T[3];
		if (A.nv < 0 || 3 + A.nv >= NT) { proto_error("args"); return; }
		A.nw = T[3 + A.nv]; A.w = &T[4 + A.nv];
		if (!sparse_ok(A.a) || !sparse_ok(A.b) || A.a == A.b || A.nw < 0 || 4 + A.nv + A.nw > NT) { proto_error("args"); return; }
		if (A.nv != of_mod2sparse_rows(SP[A.a]) || A.nw != of_mod2sparse_cols(SP[A.a])) { proto_error("index-array-length"); return; }
		UINT32 *ir = u32dup(A.v, A.nv), *ic = u32dup(A.w, A.nw);
		begin_op(&A);
		LIB_ENTER(A.b); of_mod2sparse_copy_filled_matrix(SP[A.a], SP[A.b], ir, ic); LIB_LEAVE();
		__real_free(ir); __real_free(ic);
		jb_printf(",\"ret\":0"); proj_sparse("sa", A.a); proj_sparse("sb", A.b); end_op();
	} else if (!strcmp(o, "s2d")) {
		A.a = T[0]; A.b = T[1];
		if (!sparse_ok(A.a) || !dense_ok(A.b)) { proto_error("slot"); return; }
		begin_op(&A);
		LIB_ENTER(DOWNER(A.b)); of_mod2sparse_to_dense(SP[A.a], DN[A.b]); LIB_LEAVE();
		jb_printf(",\"ret\":0"); proj_sparse("sa", A.a); proj_dense("db", A.b); end_op();
	} else if (!strcmp(o, "d2s")) {
		A.a = T[0]; A.b = T[1];
		if (!dense_ok(A.a) || !sparse_ok(A.b)) { proto_error("slot"); return; }
		begin_op(&A);
		LIB_ENTER(A.b); of_mod2dense_to_sparse(DN[A.a], SP[A.b]); LIB_LEAVE();
		jb_printf(",\"ret\":0"); proj_dense("da", A.a); proj_sparse("sb", A.b); end_op();
	}
	/* ------------------------------------------------------------- dense */
	else if (!strcmp(o, "dalloc")) {
		A.a = T[0]; A.r = T[1]; A.c = T[2];
		if (A.a < 0 || A.a >= ND || DN[A.a]) { proto_error("slot"); return; }
		begin_op(&A);
		LIB_ENTER(DOWNER(A.a)); DN[A.a] = of_mod2dense_allocate((UINT32)A.r, (UINT32)A.c); LIB_LEAVE();
		ret = DN[A.a] != NULL;
		jb_printf(",\"ret\":%ld", ret); proj_dense("da", A.a); end_op();
	} else if (!strcmp(o, "dfree")) {
		A.a = T[0];
		if (!dense_ok(A.a)) { proto_error("slot"); return; }
		begin_op(&A);
		LIB_ENTER(DOWNER(A.a)); of_mod2dense_free(DN[A.a]); LIB_LEAVE();
		DN[A.a] = NULL;
		jb_printf(",\"ret\":%ld", led_count(DOWNER(A.a))); proj_dense("da", A.a); end_op();
		led_drop(DOWNER(A.a));
	} else if (!strcmp(o, "dget") || !strcmp(o, "dflip")) {
		A.a = T[0]; A.r = T[1]; A.c = T[2];
		if (!dense_ok(A.a)) { proto_error("slot"); return; }
		begin_op(&A);
		LIB_ENTER(DOWNER(A.a));
		ret = o[1] == 'g' ? (long)of_mod2dense_get(DN[A.a], (UINT32)A.r, (UINT32)A.c) : (long)of_mod2dense_flip(DN[A.a], (UINT32)A.r, (UINT32)A.c);
		LIB_LEAVE();
		jb_printf(",\"ret\":%ld", ret); proj_dense("da", A.a); end_op();
	} else if (!strcmp(o, "dset")) {
		A.a = T[0]; A.r = T[1]; A.c = T[2]; A.b = T[3];
		if (!dense_ok(A.a)) { proto_error("slot"); return; }
		begin_op(&A);
		LIB_ENTER(DOWNER(A.a)); ret = (long)of_mod2dense_set(DN[A.a], (UINT32)A.r, (UINT32)A.c, (UINT32)A.b); LIB_LEAVE();
		jb_printf(",\"ret\":%ld", ret); proj_dense("da", A.a); end_op();
	} else if (!strcmp(o, "dload")) {
		/* harness-level bulk load of an INPUT matrix: clear, then set every listed position (v = rows, w = columns) */
		A.a = T[0]; A.nv = T[1]; A.v = &T[2];
		if (!dense_ok(A.a) || A.nv < 0 || 2 + 2 * A.nv > NT) { proto_error("args"); return; }
		A.nw = A.nv; A.w = &T[2 + A.nv];
		begin_op(&A);
		LIB_ENTER(DOWNER(A.a));
		of_mod2dense_clear(DN[A.a]);
		for (long i = 0; i < A.nv; i++) of_mod2dense_set(DN[A.a], (UINT32)A.v[i], (UINT32)A.w[i], 1);
		LIB_LEAVE();
		jb_printf(",\"ret\":0"); proj_dense("da", A.a); end_op();
	} else if (!strcmp(o, "dclear")) {
		A.a = T[0];
		if (!dense_ok(A.a)) { proto_error("slot"); return; }
		begin_op(&A);
		LIB_ENTER(DOWNER(A.a)); of_mod2dense_clear(DN[A.a]); LIB_LEAVE();
		jb_printf(",\"ret\":0"); proj_dense("da", A.a); end_op();
	} else if (!strcmp(o, "dcopy")) {
		A.a = T[0]; A.b = T[1];
		if (!dense_ok(A.a) || !dense_ok(A.b) || A.a == A.b) { proto_error("slot"); return; }
		begin_op(&A);
		LIB_ENTER(DOWNER(A.b)); of_mod2dense_copy(DN[A.a], DN[A.b]); LIB_LEAVE();
		jb_printf(",\"ret\":0"); proj_dense("da", A.a); proj_dense("db", A.b); end_op();
	} else if (!strcmp(o, "dcopyrows") || !strcmp(o, "dcopycols")) {
		A.a = T[0]; A.b = T[1]; A.nv = T[2]; A.v = &T[3];
		if (!dense_ok(A.a) || !dense_ok(A.b) || A.a == A.b || A.nv < 0 || 3 + A.nv > NT) { proto_error("args"); return; }
		int rows = o[5] == 'r';
		if (A.nv != (long)(rows ? of_mod2dense_rows(DN[A.b]) : of_mod2dense_cols(DN[A.b]))) { proto_error("index-array-length"); return; }
		UINT32 *idx = u32dup(A.v, A.nv);
		begin_op(&A);
		LIB_ENTER(DOWNER(A.b));
		if (rows) of_mod2dense_copyrows(DN[A.a], DN[A.b], idx); else of_mod2dense_copycols(DN[A.a], DN[A.b], idx);
		LIB_LEAVE();
		__real_free(idx);
		jb_printf(",\"ret\":0"); proj_dense("da", A.a); proj_dense("db", A.b); end_op();
	} else if (!strcmp(o, "dxor")) {
		A.a = T[0]; A.r = T[1]; A.c = T[2];
		if (!dense_ok(A.a)) { proto_error("slot"); return; }
		begin_op(&A);
		LIB_ENTER(DOWNER(A.a)); of_mod2dense_xor_rows(DN[A.a], (UINT16)A.r, (UINT16)A.c); LIB_LEAVE();
		jb_printf(",\"ret\":0"); proj_dense("da", A.a); end_op();
	} else if (!strcmp(o, "drw") || !strcmp(o, "dempty")) {
		A.a = T[0]; A.r = T[1];
		if (!dense_ok(A.a)) { proto_error("slot"); return; }
		begin_op(&A);
		LIB_ENTER(DOWNER(A.a));
		ret = o[1] == 'r' ? (long)of_mod2dense_row_weight(DN[A.a], (UINT32)A.r) : (of_mod2dense_row_is_empty(DN[A.a], (UINT32)A.r) ? 1 : 0);
		LIB_LEAVE();
		jb_printf(",\"ret\":%ld", ret); proj_dense("da", A.a); end_op();
	} else if (!strcmp(o, "drwi")) {
		A.a = T[0]; A.r = T[1]; A.c = T[2];
		if (!dense_ok(A.a)) { proto_error("slot"); return; }
		begin_op(&A);
		LIB_ENTER(DOWNER(A.a)); ret = (long)of_mod2dense_row_weight_ignore_first(DN[A.a], (UINT32)A.r, (UINT32)A.c); LIB_LEAVE();
		jb_printf(",\"ret\":%ld", ret); proj_dense("da", A.a); end_op();
	} else if (!strcmp(o, "dcw")) {
		A.a = T[0]; A.c = T[1];
		if (!dense_ok(A.a)) { proto_error("slot"); return; }
		begin_op(&A);
		LIB_ENTER(DOWNER(A.a)); ret = (long)of_mod2dense_col_weight(DN[A.a], (UINT32)A.c); LIB_LEAVE();
		jb_printf(",\"ret\":%ld", ret); proj_dense("da", A.a); end_op();
	}
	/* ---------------------------------------------------------- popcounts */
	else if (!strcmp(o, "hw32") || !strcmp(o, "hw8") || !strcmp(o, "hw64")) {
		A.nv = T[0]; A.v = &T[1];
		if (A.nv < 0 || 1 + A.nv > NT) { proto_error("args"); return; }
		uint64_t x = 0;
		for (long i = 0; i < A.nv; i++) x |= (uint64_t)1 << (A.v[i] & 63);
		long q[3]; int nq;
		begin_op(&A);
		LIB_ENTER(-2);
		if (o[2] == '3') { q[0] = of_hweight32((UINT32)x); q[1] = of_hweight32_table((UINT32)x); q[2] = of_hweight32_naive((UINT32)x); nq = 3; }
		else if (o[2] == '8') { q[0] = of_hweight8_table((UINT8)x); nq = 1; }
		else { q[0] = of_popcount_3((UINT64)x); nq = 1; }
		LIB_LEAVE();
		jb_printf(",\"ret\":0"); jb_list("q", q, nq); end_op();
	} else if (!strcmp(o, "hwarr")) {
		A.r = T[0]; A.nv = T[1]; A.v = &T[2];
		if (A.r < 0 || A.nv < 0 || 2 + A.nv > NT) { proto_error("args"); return; }
		long nw = (A.r + 31) / 32;
		UINT32 *arr = __real_malloc((nw ? nw : 1) * sizeof(UINT32));
		memset(arr, 0, (nw ? nw : 1) * sizeof(UINT32));
		for (long i = 0; i < A.nv; i++) if (A.v[i] >= 0 && A.v[i] < A.r) arr[A.v[i] / 32] |= (UINT32)1 << (A.v[i] % 32);
		begin_op(&A);
		LIB_ENTER(-2); ret = (long)of_hweight_array(arr, (INT32)A.r); LIB_LEAVE();
		__real_free(arr);
		jb_printf(",\"ret\":%ld", ret); end_op();
	} else if (!strcmp(o, "solve")) {
		do_solve();
	} else {
		proto_error("unknown-op");
	}
}

static void emit_dense_bits(of_mod2dense *m, long p, long q)
{
	jb_printf("[");
	for (long i = 0; i < p; i++) {
		jb_printf(i ? ",[" : "[");
		long n = 0;
		for (long j = 0; j < q; j++) if (of_mod2dense_get(m, (UINT32)i, (UINT32)j)) jb_printf(n++ ? ",%ld" : "%ld", j);
		jb_printf("]");
	}
	jb_printf("]");
}

/* solve mode p q L  <p groups: n c..>  <p groups: isnull n b..> */
static void do_solve(void)
{
	long mode = T[0], p = T[1], q = T[2], L = T[3];
	int k = 4;
	if (p < 1 || q < 1 || q > p || L < 1 || p > 64 || q > 64) { proto_error("args"); return; }
	LIB_ENTER(-3);
	of_mod2dense *m = of_mod2dense_allocate((UINT32)p, (UINT32)q);
	LIB_LEAVE();
	void **ct = __real_calloc(p, sizeof(void *));
	void **vt = __real_calloc(q, sizeof(void *));
	long nnull = 0;
	{	/* pre-scan: number of NULL constant terms */
		int kk = 4;
		for (long i = 0; i < p && kk < NT; i++) kk += 1 + (int)T[kk];
		for (long i = 0; i < p && kk + 1 < NT + 1; i++) { if (T[kk]) nnull++; kk += 2 + (int)T[kk + 1]; }
	}
	g_jn = 0;
	jb_printf("{\"e\":\"Op\",\"x\":%ld,\"op\":\"solve\",\"a\":%ld,\"b\":%ld,\"r\":%ld,\"c\":%ld,\"v\":[%ld],\"w\":[],\"M\":[", g_exec, mode, nnull, p, q, L);
	for (long i = 0; i < p; i++) {
		if (k >= NT) { proto_error("args"); return; }
		long n = T[k++];
		jb_printf(i ? ",[" : "[");
		for (long j = 0; j < n && k < NT; j++) {
			long c = T[k++];
			if (c >= 0 && c < q) { LIB_ENTER(-3); of_mod2dense_set(m, (UINT32)i, (UINT32)c, 1); LIB_LEAVE(); }
			jb_printf(j ? ",%ld" : "%ld", c);
		}
		jb_printf("]");
	}
	jb_printf("],\"rhs\":[");
	size_t frag = 0;
	for (long i = 0; i < p; i++) {
		if (k + 1 >= NT + 1) { proto_error("args"); return; }
		long isnull = T[k++], n = T[k++];
		jb_printf(i ? ",[" : "[");
		if (!isnull) { ct[i] = malloc(L); memset(ct[i], 0, L); }   /* through the wrappers: the solver may hand it over and the caller frees it */
		for (long j = 0; j < n && k < NT; j++) {
			long b = T[k++];
			if (!isnull && b >= 0 && b < 8 * L) ((unsigned char *)ct[i])[b / 8] |= (unsigned char)(1u << (b % 8));
			jb_printf(j ? ",%ld" : "%ld", b);
		}
		jb_printf("]");
	}
	jb_printf("],\"null\":[");
	for (long i = 0, n = 0; i < p; i++) if (!ct[i]) jb_printf(n++ ? ",%ld" : "%ld", i);
	jb_printf("]");
	(void)frag;
	snprintf(g_sh->cur, sizeof g_sh->cur, "\"op\":\"solve\",\"a\":%ld,\"b\":%ld,\"r\":%ld,\"c\":%ld,\"v\":[%ld],\"w\":[]", mode, nnull, p, q, L);

	of_linear_binary_code_cb_t cb;
	memset(&cb, 0, sizeof cb);
	cb.encoding_symbol_length = (UINT32)L;
	cb.nb_source_symbols = (UINT32)q; cb.nb_repair_symbols = (UINT32)p; cb.nb_total_symbols = (UINT32)(p + q);
	cb.tmp_tab_symbols = __real_calloc(p + q + 1, sizeof(void *));
	cb.nb_tmp_symbols = 0;

	LIB_ENTER(-3);
	of_status_t st = of_linear_binary_code_solve_dense_system(&cb, m, ct, vt);
	LIB_LEAVE();

	jb_printf(",\"ret\":%d,\"xnull\":[", (int)st);
	for (long j = 0, n = 0; j < q; j++) if (!vt[j]) jb_printf(n++ ? ",%ld" : "%ld", j);
	jb_printf("],\"sol\":[");
	for (long j = 0; j < q; j++) {
		jb_printf(j ? ",[" : "[");
		if (vt[j]) {
			long n = 0;
			for (long b = 0; b < 8 * L; b++)
				if (((unsigned char *)vt[j])[b / 8] >> (b % 8) & 1) jb_printf(n++ ? ",%ld" : "%ld", b);
		}
		jb_printf("]");
	}
	jb_printf("]");
	/* the matrix the solver worked on (rows swapped through the row-pointer table, eliminated in place) is still a
	 * dense matrix: copying it to a fresh one, and copying a fresh one over it, must give equal bit matrices */
	{
		LIB_ENTER(-3);
		of_mod2dense *m2 = of_mod2dense_allocate((UINT32)p, (UINT32)q);
		of_mod2dense_copy(m, m2);
		LIB_LEAVE();
		jb_printf(",\"cs\":"); emit_dense_bits(m, p, q); jb_printf(",\"cd\":"); emit_dense_bits(m2, p, q);
		LIB_ENTER(-3);
		of_mod2dense_clear(m2);
		for (long i = 0; i < p; i++) for (long j = (i * 7) % 3; j < q; j += 3) of_mod2dense_set(m2, (UINT32)i, (UINT32)j, 1);
		LIB_LEAVE();
		jb_printf(",\"rs\":"); emit_dense_bits(m2, p, q);
		LIB_ENTER(-3);
		of_mod2dense_copy(m2, m);
		LIB_LEAVE();
		jb_printf(",\"rd\":"); emit_dense_bits(m, p, q);
		LIB_ENTER(-3); of_mod2dense_free(m2); LIB_LEAVE();
	}
	end_op();
	for (long i = 0; i < p; i++) if (ct[i]) free(ct[i]);
	for (long j = 0; j < q; j++) if (vt[j]) free(vt[j]);
	__real_free(ct); __real_free(vt); __real_free(cb.tmp_tab_symbols);
	LIB_ENTER(-3); of_mod2dense_free(m); LIB_LEAVE();
	led_drop(-3);
}

static void run_line(char *ln)
{
	char *save = NULL, *t = strtok_r(ln, " \t\r\n", &save);
	if (!t || t[0] == '#') return;
	snprintf(OPN, sizeof OPN, "%s", t);
	NT = 0;
	while ((t = strtok_r(NULL, " \t\r\n", &save)) && NT < MAXTOK) T[NT++] = strtol(t, NULL, 10);
	for (int i = NT; i < NT + 8 && i < MAXTOK; i++) T[i] = 0;
	run_op();
}

static void drop_all(void)
{
	for (int s = 0; s < NS; s++) if (SP[s]) { of_mod2sparse_free(SP[s]); of_free(SP[s]); SP[s] = NULL; }
	for (int s = 0; s < ND; s++) if (DN[s]) { of_mod2dense_free(DN[s]); DN[s] = NULL; }
	g_nblk = 0; g_foreign = 0;
}

/* -------------------------------------------------------------------- main */

static void fault_line(const char *what)
{
	static char buf[4200];
	int n = snprintf(buf, sizeof buf, "{\"e\":\"MemFault\",\"x\":%ld,\"what\":\"%s\",%s}\n", g_exec, what,
	                 g_sh->cur[0] ? g_sh->cur : "\"op\":\"none\",\"a\":0,\"b\":0,\"r\":0,\"c\":0,\"v\":[],\"w\":[]");
	if (write(g_trfd, buf, n) < 0) {}
}
extern void __asan_set_death_callback(void (*)(void)) __attribute__((weak));
static void asan_death(void) { fault_line("asan"); _exit(42); }
static void on_sig(int sig)
{
	fault_line(sig == SIGALRM ? "hang" : sig == SIGSEGV ? "segv" : sig == SIGFPE ? "fpe" : sig == SIGABRT ? "abort" : "signal");
	_exit(43);
}

int main(int argc, char **argv)
{
	if (argc < 3) { fprintf(stderr, "usage: %s commands trace\n", argv[0]); return 2; }
	FILE *f = fopen(argv[1], "r");
	if (!f) { perror(argv[1]); return 2; }
	g_trfd = open(argv[2], O_WRONLY | O_CREAT | O_APPEND, 0644);
	if (g_trfd < 0) { perror(argv[2]); return 2; }
	if (!getenv("MATRIX_DRIVER_VERBOSE")) { freopen("/dev/null", "w", stdout); freopen("/dev/null", "w", stderr); }

	char **lines = NULL; size_t nl = 0, cl = 0; char *ln = NULL; size_t lc = 0;
	while (getline(&ln, &lc, f) > 0) {
		if (nl == cl) { cl = cl ? cl * 2 : 1024; lines = realloc(lines, cl * sizeof(char *)); }
		lines[nl++] = strdup(ln);
	}
	fclose(f);
	g_sh = mmap(NULL, sizeof(shared_t), PROT_READ | PROT_WRITE, MAP_SHARED | MAP_ANONYMOUS, -1, 0);
	if (g_sh == MAP_FAILED) { return 2; }
	g_sh->next_line = 0; g_sh->exec = 0; g_sh->cur[0] = 0;
	int timeout_s = getenv("MATRIX_DRIVER_EXEC_TIMEOUT") ? atoi(getenv("MATRIX_DRIVER_EXEC_TIMEOUT")) : 30;
	while ((size_t)g_sh->next_line < nl) {
		pid_t pid = fork();
		if (pid < 0) return 2;
		if (pid == 0) {
			if (__asan_set_death_callback) __asan_set_death_callback(asan_death);
			signal(SIGSEGV, on_sig); signal(SIGBUS, on_sig); signal(SIGFPE, on_sig); signal(SIGALRM, on_sig); signal(SIGABRT, on_sig);
			g_exec = g_sh->exec;
			alarm(timeout_s);
			for (size_t i = g_sh->next_line; i < nl; i++) {
				if (!strncmp(lines[i], "reset", 5)) {
					drop_all();
					g_jn = 0; jb_printf("{\"e\":\"Reset\",\"x\":%ld}\n", g_exec); jb_flush();
					g_exec++; g_sh->exec = g_exec; g_sh->next_line = (long)i + 1;
					alarm(timeout_s);
					continue;
				}
				char *dup = strdup(lines[i]);
				run_line(dup);
				free(dup);
			}
			g_sh->next_line = (long)nl;
			_exit(0);
		}
		int wst = 0; waitpid(pid, &wst, 0);
		if ((size_t)g_sh->next_line < nl) {
			/* the child died inside an execution: skip to the line after the next reset */
			g_exec = g_sh->exec;
			if (!(WIFEXITED(wst) && (WEXITSTATUS(wst) == 42 || WEXITSTATUS(wst) == 43))) fault_line("died");
			size_t i = g_sh->next_line;
			while (i < nl && strncmp(lines[i], "reset", 5)) i++;
			char buf[96]; int n = snprintf(buf, sizeof buf, "{\"e\":\"Reset\",\"x\":%ld}\n", (long)g_sh->exec);
			if (write(g_trfd, buf, n) < 0) {}
			g_sh->exec++; g_sh->next_line = (long)(i < nl ? i + 1 : nl);
			g_sh->cur[0] = 0;
		}
	}
	close(g_trfd);
	return 0;
}
